package txstore

// Generators for engine txstore:
//  (a) node simulator: consistent histories over a generated transaction universe (C01 C12 C13),
//  (b) raw / malformed API streams (model must still agree with the code),
//  (c) C02 pairs: a history with reorg cycles vs the direct construction of its final facts,
//  (d) scripted shapes (credit+spender in one block, coinbase spend chains, confirmed double spend against a
//      pool chain, zero-value credit, lease boundaries),
//  (e) histories of (a) with injected events no validating node emits (simOpts.wild), and the thorough tier's
//      small-scope enumeration, part of which is outside the properties' quantifier as well.
//
// Whether the property oracles apply to a history is NOT decided here: the runner tracks chain consistency of the
// delivered events itself (runner.cons / runner.strict, oracle.go: ledger.consistent / ledger.extra) and the Lean
// driver does the same with Ledger.consistent / Ledger.extra; both answers are part of the compared replies.

import (
	"crypto/sha256"
	"encoding/binary"
	"fmt"
	"math/rand"
	"sort"
	"strings"
	"time"

	"github.com/btcsuite/btcd/chaincfg/chainhash"
	"github.com/btcsuite/btcd/wire"
	"github.com/btcsuite/btcwallet/wtxmgr"

	"verifharness/core"
)

type uTx struct {
	*txDef
	idx     int
	credits []credSpec
}

type universe struct {
	txs    []*uTx
	byHash map[chainhash.Hash]*uTx
}

func nullOut() wire.OutPoint { return wire.OutPoint{Index: 0xffffffff} }

func mkTx(tid string, lt uint32, ins []wire.OutPoint, outs []int64) *txDef {
	m := buildTx(lt, ins, outs)
	return &txDef{tid: tid, lt: lt, ins: ins, outs: outs, msg: m, hash: m.TxHash()}
}

func (t *txDef) defLine() string {
	var ins, outs []string
	for _, i := range t.ins {
		ins = append(ins, opLong(i))
	}
	for _, o := range t.outs {
		outs = append(outs, fmt.Sprint(o))
	}
	return fmt.Sprintf("deftx %s %s lt=%d ins=%s outs=%s", t.tid, hx(t.hash), t.lt, strings.Join(ins, ","), strings.Join(outs, ","))
}

func crStr(cr []credSpec) string {
	var l []string
	for _, c := range cr {
		l = append(l, fmt.Sprintf("%d:%s", c.idx, b01(c.change)))
	}
	return strings.Join(l, ",")
}

func randHash(rng *rand.Rand) chainhash.Hash {
	var h chainhash.Hash
	rng.Read(h[:])
	return h
}

// wild: a few inputs name a universe transaction but none of its outputs (no validating node relays such a
// transaction; the consistent simulator never delivers it, only actInject does).
func genUniverse(rng *rand.Rand, n int, wild bool) *universe {
	u := &universe{byHash: map[chainhash.Hash]*uTx{}}
	type outRef struct {
		op     wire.OutPoint
		chosen bool
	}
	var outs []*outRef
	for i := 0; i < n; i++ {
		var ins []wire.OutPoint
		cb := len(outs) == 0 || rng.Intn(100) < 18
		if cb {
			ins = []wire.OutPoint{nullOut()}
		} else {
			nIn := 1 + rng.Intn(3)
			used := map[wire.OutPoint]bool{}
			for j := 0; j < nIn; j++ {
				var op wire.OutPoint
				if rng.Intn(100) < 80 {
					// prefer unchosen outputs; sometimes take an already chosen one (conflict)
					var cand []*outRef
					for _, o := range outs {
						if !o.chosen {
							cand = append(cand, o)
						}
					}
					if len(cand) == 0 || rng.Intn(100) < 25 {
						cand = outs
					}
					o := cand[rng.Intn(len(cand))]
					o.chosen = true
					op = o.op
					if wild && rng.Intn(100) < 6 {
						op.Index += 7
					}
				} else {
					op = wire.OutPoint{Hash: randHash(rng), Index: uint32(rng.Intn(3))}
				}
				if !used[op] {
					used[op] = true
					ins = append(ins, op)
				}
			}
		}
		nOut := 1 + rng.Intn(4)
		var vals []int64
		for j := 0; j < nOut; j++ {
			if rng.Intn(100) < 8 {
				vals = append(vals, 0)
			} else {
				vals = append(vals, int64(1+rng.Intn(50))*1000)
			}
		}
		t := &uTx{txDef: mkTx(fmt.Sprintf("t%d", i), uint32(i+1), ins, vals), idx: i}
		for j := range vals {
			if rng.Intn(100) < 60 {
				t.credits = append(t.credits, credSpec{uint32(j), rng.Intn(100) < 30})
			}
		}
		if len(t.credits) == 0 {
			t.credits = []credSpec{{0, false}}
		}
		u.txs = append(u.txs, t)
		u.byHash[t.hash] = t
		for j := range vals {
			outs = append(outs, &outRef{op: wire.OutPoint{Hash: t.hash, Index: uint32(j)}})
		}
	}
	return u
}

type simBlock struct {
	height int32
	hash   chainhash.Hash
	time   int64
	txs    []*uTx
}

func (b *simBlock) meta() *wtxmgr.BlockMeta {
	return &wtxmgr.BlockMeta{Block: wtxmgr.Block{Hash: b.hash, Height: b.height}, Time: time.Unix(b.time, 0)}
}

func blockHash(height int32, branch int) chainhash.Hash {
	var b [12]byte
	binary.BigEndian.PutUint32(b[:], uint32(height))
	binary.BigEndian.PutUint64(b[4:], uint64(branch))
	return chainhash.Hash(sha256.Sum256(b[:]))
}

// sim is the node: best chain + mempool; it decides which events are emitted. led is the wallet-side
// specification state used to pick sensible targets (pool members, spendable outputs, lease expiries).
type sim struct {
	rng     *rand.Rand
	u       *universe
	mat     int64
	chain   []*simBlock
	top     int32
	mempool []*uTx
	branch  int
	led     *ledger
	now     int64
	ops     []string
	opts    simOpts
	tags    map[string]bool
}

type simOpts struct {
	leases     bool
	subSecond  bool
	probeEvery bool
	heavy      bool // thorough: query every tx / more ranges / dump each step
	// wild: now and then an event no validating node emits is injected (actInject).  From then on the history is
	// outside the quantifier of C01/C02/C12/C13; the RUNNER's tracker (ledger.consistent / ledger.extra, compared
	// with the Lean driver's through the cons=/strict= reply fields) notices and silences the property oracles, the
	// Go<->Lean correspondence keeps being checked on every op.
	wild bool
}

func (s *sim) emit(format string, a ...interface{}) { s.ops = append(s.ops, fmt.Sprintf(format, a...)) }

func (s *sim) inMempool(t *uTx) bool {
	for _, m := range s.mempool {
		if m == t {
			return true
		}
	}
	return false
}

func (s *sim) confirmedIn(t *uTx) *simBlock {
	for _, b := range s.chain {
		for _, x := range b.txs {
			if x == t {
				return b
			}
		}
	}
	return nil
}

func (s *sim) chainSpender(op wire.OutPoint) *uTx {
	for _, b := range s.chain {
		for _, x := range b.txs {
			if x.spends(op) {
				return x
			}
		}
	}
	return nil
}

func (s *sim) mempoolConflicts(t *uTx) []*uTx {
	var c []*uTx
	for _, m := range s.mempool {
		if m == t {
			continue
		}
		for _, in := range t.ins {
			if m.spends(in) {
				c = append(c, m)
				break
			}
		}
	}
	return c
}

// parentsOK: every in-universe parent is confirmed (mature if coinbase) or, when allowPool, in the mempool/extra set.
func (s *sim) parentsOK(t *uTx, extra map[*uTx]bool, allowPool bool, height int32) bool {
	for _, in := range t.ins {
		p := s.u.byHash[in.Hash]
		if p == nil {
			continue
		}
		if int(in.Index) >= len(p.outs) {
			return false
		}
		if b := s.confirmedIn(p); b != nil {
			if p.coinbase() && int64(height-b.height+1) < s.mat && s.rng.Intn(100) < 90 {
				return false
			}
			continue
		}
		if extra[p] || (allowPool && s.inMempool(p)) {
			if p.coinbase() {
				return false
			}
			continue
		}
		return false
	}
	return true
}

func (s *sim) unspentByChain(t *uTx) bool {
	for _, in := range t.ins {
		if s.chainSpender(in) != nil {
			return false
		}
	}
	return true
}

func (s *sim) evictWithDescendants(roots []*uTx) {
	gone := map[chainhash.Hash]bool{}
	for _, r := range roots {
		gone[r.hash] = true
	}
	for changed := true; changed; {
		changed = false
		for _, m := range s.mempool {
			if gone[m.hash] {
				continue
			}
			for _, in := range m.ins {
				if gone[in.Hash] {
					gone[m.hash] = true
					changed = true
					break
				}
			}
		}
	}
	var keep []*uTx
	for _, m := range s.mempool {
		if !gone[m.hash] {
			keep = append(keep, m)
		}
	}
	s.mempool = keep
}

func (s *sim) apply(e event) {
	s.led.now = s.now
	s.led.apply(e)
}

func (s *sim) seen(t *uTx) {
	s.emit("ev seen %s cr=%s", t.tid, crStr(t.credits))
	s.apply(event{kind: "seen", tx: t.txDef, credits: t.credits})
}

func (s *sim) conf(t *uTx, b *simBlock) {
	s.emit("ev conf %s %d %s %d cr=%s", t.tid, b.height, hx(b.hash), b.time, crStr(t.credits))
	s.apply(event{kind: "conf", tx: t.txDef, bm: b.meta(), credits: t.credits})
}

func (s *sim) actAccept(replace bool) bool {
	perm := s.rng.Perm(len(s.u.txs))
	for _, i := range perm {
		t := s.u.txs[i]
		if t.coinbase() || s.confirmedIn(t) != nil || s.inMempool(t) || s.led.find(t.hash) != nil {
			continue
		}
		if !s.parentsOK(t, nil, true, s.top+1) || !s.unspentByChain(t) {
			continue
		}
		c := s.mempoolConflicts(t)
		if (len(c) > 0) != replace {
			continue
		}
		if replace {
			s.evictWithDescendants(c)
			s.tags["replace"] = true
		}
		s.mempool = append(s.mempool, t)
		s.seen(t)
		return true
	}
	return false
}

// actExtend mines one block on top; prefer lists transactions to include with high probability.
func (s *sim) actExtend(pInclude int, prefer map[*uTx]bool) {
	s.top++
	s.branch++
	b := &simBlock{height: s.top, hash: blockHash(s.top, s.branch), time: 1500000000 + int64(s.top)*600 + int64(s.branch)}
	included := map[*uTx]bool{}
	spentHere := map[wire.OutPoint]bool{}
	try := func(t *uTx) bool {
		if s.confirmedIn(t) != nil || included[t] {
			return false
		}
		if !s.parentsOK(t, included, false, s.top) || !s.unspentByChain(t) {
			return false
		}
		for _, in := range t.ins {
			if spentHere[in] {
				return false
			}
		}
		included[t] = true
		for _, in := range t.ins {
			spentHere[in] = true
		}
		b.txs = append(b.txs, t)
		return true
	}
	// a coinbase the wallet cares about
	if s.rng.Intn(100) < 45 {
		for _, i := range s.rng.Perm(len(s.u.txs)) {
			t := s.u.txs[i]
			if t.coinbase() && s.confirmedIn(t) == nil && s.led.find(t.hash) == nil {
				try(t)
				break
			}
		}
	}
	// candidates in universe order (= parents first), optionally shuffled among independent ones by repeated passes
	order := s.rng.Perm(len(s.u.txs))
	for pass := 0; pass < 3; pass++ {
		for _, i := range order {
			t := s.u.txs[i]
			if t.coinbase() {
				continue
			}
			inPool := s.inMempool(t)
			p := 0
			switch {
			case prefer[t]:
				p = 85
			case inPool:
				p = pInclude
			case s.led.find(t.hash) == nil:
				p = 12 // confirmed without having been seen unconfirmed
			default:
				// known to the wallet but evicted from the node mempool (replaced): may still be mined
				// only if it is valid, which try() checks
				p = 10
			}
			if s.rng.Intn(100) < p {
				try(t)
			}
		}
	}
	s.chain = append(s.chain, b)
	// node mempool: drop included, evict conflicts
	var keep []*uTx
	for _, m := range s.mempool {
		if !included[m] {
			keep = append(keep, m)
		}
	}
	s.mempool = keep
	for _, t := range b.txs {
		s.evictWithDescendants(s.mempoolConflicts(t))
	}
	for _, t := range b.txs {
		s.conf(t, b)
	}
	if len(b.txs) == 0 {
		s.tags["empty-block"] = true
	}
}

func (s *sim) actReorg(d int) {
	if d > len(s.chain) {
		d = len(s.chain)
	}
	if d == 0 {
		return
	}
	cut := s.chain[len(s.chain)-d:]
	s.chain = s.chain[:len(s.chain)-d]
	newTop := s.top - int32(d)
	// wallet notifications: tip-down one by one, or one rollback to the fork point
	if s.rng.Intn(2) == 0 {
		for h := s.top; h > newTop; h-- {
			s.emit("rollback %d", h)
			s.apply(event{kind: "disc", height: int64(h)})
		}
	} else {
		s.emit("rollback %d", newTop+1)
		s.apply(event{kind: "disc", height: int64(newTop + 1)})
	}
	s.top = newTop
	prefer := map[*uTx]bool{}
	var back []*uTx
	for _, b := range cut {
		for _, t := range b.txs {
			if !t.coinbase() {
				back = append(back, t)
			}
		}
	}
	// transactions return to the node mempool when still valid (parents first)
	sort.Slice(back, func(i, j int) bool { return back[i].idx < back[j].idx })
	for _, t := range back {
		if s.parentsOK(t, nil, true, s.top+1) && s.unspentByChain(t) && len(s.mempoolConflicts(t)) == 0 {
			s.mempool = append(s.mempool, t)
			if s.rng.Intn(100) < 75 {
				prefer[t] = true
			}
		}
	}
	s.tags[fmt.Sprintf("reorg-depth-%d", d)] = true
	// the new branch: at least as long as the old one
	n := d + s.rng.Intn(2)
	for i := 0; i < n; i++ {
		s.actExtend(40, prefer)
		s.probes()
	}
}

func (s *sim) actAbandon() bool {
	if len(s.led.pool) == 0 {
		return false
	}
	t := s.led.pool[s.rng.Intn(len(s.led.pool))]
	ut := s.u.byHash[t.hash]
	s.emit("removeunmined %s", t.tid)
	s.apply(event{kind: "abandon", tx: t})
	if ut != nil && s.inMempool(ut) {
		s.evictWithDescendants([]*uTx{ut})
	}
	return true
}

func (s *sim) actDuplicate() bool {
	k := s.led.known()
	if len(k) == 0 {
		return false
	}
	x := k[s.rng.Intn(len(k))]
	ut := s.u.byHash[x.tx.hash]
	if ut == nil {
		return false
	}
	// half of the redeliveries come from a client that calls AddCredit whatever InsertTx answered (rescan-style);
	// the credits delivered are those the ledger already holds for the transaction, so the ledger does not change
	bang := ""
	var have []credSpec
	for i := range ut.outs {
		if chg, ok := s.led.credit[wire.OutPoint{Hash: ut.hash, Index: uint32(i)}]; ok {
			have = append(have, credSpec{uint32(i), chg})
		}
	}
	if s.rng.Intn(2) == 0 && len(have) == len(ut.credits) {
		bang = "!"
	}
	if x.blk == nil || s.rng.Intn(4) == 0 {
		// redelivery of an unconfirmed notification (also for a tx that has confirmed meanwhile)
		s.emit("ev seen%s %s cr=%s", bang, ut.tid, crStr(ut.credits))
		s.apply(event{kind: "seen", tx: ut.txDef, credits: ut.credits})
	} else {
		s.emit("ev conf%s %s %d %s %d cr=%s", bang, ut.tid, x.blk.height, hx(x.blk.hash), x.blk.time, crStr(ut.credits))
		s.apply(event{kind: "conf", tx: ut.txDef, bm: &wtxmgr.BlockMeta{Block: wtxmgr.Block{Hash: x.blk.hash, Height: x.blk.height}, Time: time.Unix(x.blk.time, 0)}, credits: ut.credits})
	}
	s.tags["duplicate"] = true
	return true
}

// actInject delivers an event chosen WITHOUT asking whether a validating node could emit it: the unconfirmed or
// confirmed (in the tip block) delivery of an arbitrary universe transaction, or the removal of one.  Typical
// results: an unconfirmed transaction that conflicts with a confirmed one, a child before its parent, a confirmed
// double spend, an input naming a missing output, the removal of a mined transaction.
func (s *sim) actInject() {
	t := s.u.txs[s.rng.Intn(len(s.u.txs))]
	s.tags["injected"] = true
	// half of the time aim at the events that pass every chain-shape test (one block per height, parents first, no
	// confirmed double spend ...) and are still impossible: the mempool acceptance of a transaction that conflicts
	// with the chain, or of one whose input names a missing output of a known transaction
	if s.rng.Intn(2) == 0 {
		var cands []*uTx
		for _, c := range s.u.txs {
			if c.coinbase() || s.led.find(c.hash) != nil {
				continue
			}
			badRef := false
			for _, in := range c.ins {
				if p := s.led.find(in.Hash); p != nil && int(in.Index) >= len(p.tx.outs) {
					badRef = true
				}
			}
			if badRef || !s.unspentByChain(c) {
				cands = append(cands, c)
			}
		}
		if len(cands) > 0 {
			t = cands[s.rng.Intn(len(cands))]
			s.tags["injected-chain-conflict"] = true
			s.seen(t)
			s.mempool = append(s.mempool, t)
			return
		}
	}
	switch k := s.rng.Intn(100); {
	case k < 50 || len(s.chain) == 0:
		s.seen(t)
		if !s.inMempool(t) && s.confirmedIn(t) == nil {
			s.mempool = append(s.mempool, t)
		}
	case k < 85:
		b := s.chain[len(s.chain)-1]
		if s.confirmedIn(t) == nil {
			b.txs = append(b.txs, t)
		}
		s.conf(t, b)
	default:
		s.emit("removeunmined %s", t.tid)
		s.apply(event{kind: "abandon", tx: t.txDef})
	}
}

func (s *sim) setClock(t int64) {
	if t < 0 {
		t = 0
	}
	s.now = t
	s.emit("clock %d", t)
	s.apply(event{kind: "clock", t: t})
}

func (s *sim) actLease() {
	r := s.rng
	s.led.now = s.now
	pickOp := func() wire.OutPoint {
		var cands []wire.OutPoint
		for op := range s.led.credit {
			cands = append(cands, op)
		}
		sort.Slice(cands, func(i, j int) bool { return opLess(cands[i], cands[j]) })
		if len(cands) == 0 || r.Intn(100) < 8 {
			if len(s.u.txs) > 0 && r.Intn(2) == 0 {
				t := s.u.txs[r.Intn(len(s.u.txs))]
				return wire.OutPoint{Hash: t.hash, Index: uint32(r.Intn(len(t.outs) + 1))}
			}
			return wire.OutPoint{Hash: randHash(r), Index: 0}
		}
		// prefer already leased outputs to exercise id conflicts and boundaries
		var leased []wire.OutPoint
		for _, op := range cands {
			if _, ok := s.led.leases[op]; ok {
				leased = append(leased, op)
			}
		}
		if len(leased) > 0 && r.Intn(100) < 50 {
			return leased[r.Intn(len(leased))]
		}
		return cands[r.Intn(len(cands))]
	}
	switch k := r.Intn(100); {
	case k < 35:
		durs := []int64{1e9, 2e9, 10e9, 60e9}
		if s.opts.subSecond {
			durs = append(durs, 2500000000, 300000000, 1, 999999999, -1e9)
		}
		op := pickOp()
		id := uint64(1 + r.Intn(2))
		d := durs[r.Intn(len(durs))]
		s.emit("lock %d %s %d", id, opLong(op), d)
		s.apply(event{kind: "lease", id: id, op: op, dur: d})
		s.tags["lease"] = true
	case k < 50:
		op := pickOp()
		id := uint64(1 + r.Intn(2))
		s.emit("unlock %d %s", id, opLong(op))
		s.apply(event{kind: "release", id: id, op: op})
	case k < 58:
		s.emit("sweep")
		s.apply(event{kind: "sweep"})
	case k < 64:
		s.emit("reopen")
	default:
		// visit the instants around an expiry: e-1ns, e, e+1ns, e±1s (stored expiry = whole seconds of e)
		var es []int64
		for _, ls := range s.led.leases {
			es = append(es, ls.expiry, floorDiv(ls.expiry, 1e9)*1e9)
		}
		sort.Slice(es, func(i, j int) bool { return es[i] < es[j] })
		if len(es) == 0 {
			s.setClock(s.now + int64(r.Intn(3))*1e9)
			return
		}
		// the clock only moves forward
		var cands []int64
		for _, e := range es {
			for _, d := range []int64{-1, 0, 1, -1e9, 1e9} {
				if e+d >= s.now {
					cands = append(cands, e+d)
				}
			}
		}
		if len(cands) == 0 {
			s.setClock(s.now + 1 + int64(r.Intn(2))*1e9)
			return
		}
		sort.Slice(cands, func(i, j int) bool { return cands[i] < cands[j] })
		if len(cands) > 6 {
			cands = cands[:6]
		}
		s.setClock(cands[r.Intn(len(cands))])
		s.tags["clock-boundary"] = true
	}
}

func (s *sim) heights() []int64 {
	set := map[int64]bool{-1: true, 0: true, int64(s.top) + 1: true}
	for _, b := range s.led.chain {
		h := int64(b.height)
		set[h-1], set[h], set[h+1] = true, true, true
	}
	var l []int64
	for h := range set {
		if h >= -1 {
			l = append(l, h)
		}
	}
	sort.Slice(l, func(i, j int) bool { return l[i] < l[j] })
	return l
}

func (s *sim) probes() {
	r := s.rng
	s.emit("probe %d", s.top)
	s.emit("spec probe %d", s.top)
	s.emit("inv %d", s.top)
	s.emit("refcheck")
	nDet := 3
	if s.opts.heavy {
		nDet = len(s.u.txs)
	}
	for _, i := range r.Perm(len(s.u.txs)) {
		if nDet == 0 {
			break
		}
		nDet--
		t := s.u.txs[i]
		s.emit("details %s", hx(t.hash))
		s.emit("spec details %s", hx(t.hash))
		if r.Intn(4) == 0 {
			if k := s.led.find(t.hash); k != nil && k.blk != nil {
				s.emit("udetails %s %d %s", hx(t.hash), k.blk.height, hx(k.blk.hash))
			} else {
				s.emit("udetails %s", hx(t.hash))
			}
			if k := s.led.find(t.hash); k != nil && k.blk != nil && r.Intn(2) == 0 {
				s.emit("prevscripts %s %d %s", t.tid, k.blk.height, hx(k.blk.hash))
			} else {
				s.emit("prevscripts %s", t.tid)
			}
		}
	}
	hs := s.heights()
	nR := 2
	if s.opts.heavy {
		nR = 8
	}
	for i := 0; i < nR; i++ {
		b, e := hs[r.Intn(len(hs))], hs[r.Intn(len(hs))]
		s.emit("range %d %d", b, e)
		s.emit("spec range %d %d", b, e)
	}
	if r.Intn(5) == 0 || s.opts.heavy {
		s.emit("watch")
		s.emit("spec watch")
	}
	if r.Intn(4) == 0 || s.opts.heavy {
		s.emit("dump")
	}
}

func newSim(rng *rand.Rand, nTx int, mat int64, opts simOpts) *sim {
	s := &sim{rng: rng, u: genUniverse(rng, nTx, opts.wild), mat: mat, led: newLedger(), opts: opts, tags: map[string]bool{}}
	s.emit("reset mat=%d", mat)
	for _, t := range s.u.txs {
		s.emit("%s", t.defLine())
	}
	if opts.leases {
		start := int64(1700000000) * 1e9
		if opts.subSecond {
			start += int64(rng.Intn(1e9))
		}
		s.setClock(start)
	}
	return s
}

func (s *sim) run(steps int) {
	for i := 0; i < steps; i++ {
		if s.opts.wild && s.rng.Intn(100) < 12 {
			s.actInject()
			s.probes()
			continue
		}
		k := s.rng.Intn(100)
		switch {
		case k < 26:
			if !s.actAccept(false) {
				s.actExtend(60, nil)
			}
		case k < 32:
			if !s.actAccept(true) {
				s.actExtend(60, nil)
			}
		case k < 56:
			s.actExtend(60, nil)
		case k < 66:
			d := 1 + s.rng.Intn(3)
			if s.rng.Intn(5) == 0 {
				d = int(s.mat) + s.rng.Intn(2)
			}
			s.actReorg(d)
		case k < 72:
			s.actAbandon()
		case k < 80:
			s.actDuplicate()
		default:
			if s.opts.leases {
				s.actLease()
			} else {
				s.actExtend(50, nil)
			}
		}
		s.probes()
	}
}

func (s *sim) caseOf(kind string) core.Case {
	tags := []string{kind}
	for t := range s.tags {
		tags = append(tags, t)
	}
	sort.Strings(tags)
	return core.Case{Ops: s.ops, Tags: tags}
}

// directConstruction emits, on a fresh store, the final facts of s.led: confirmed transactions block by block
// (parents first, otherwise shuffled), then the unconfirmed ones (parents first).
func directConstruction(rng *rand.Rand, s *sim) []string {
	var ops []string
	idx := func(t *txDef) int { return s.u.byHash[t.hash].idx }
	creditsOf := func(t *txDef) []credSpec {
		var cr []credSpec
		for i := range t.outs {
			if chg, ok := s.led.credit[wire.OutPoint{Hash: t.hash, Index: uint32(i)}]; ok {
				cr = append(cr, credSpec{uint32(i), chg})
			}
		}
		return cr
	}
	topo := func(txs []*txDef) []*txDef {
		// random order subject to parents (within the list) first
		left := append([]*txDef{}, txs...)
		var out []*txDef
		done := map[chainhash.Hash]bool{}
		inList := map[chainhash.Hash]bool{}
		for _, t := range txs {
			inList[t.hash] = true
		}
		for len(left) > 0 {
			var ready []int
			for i, t := range left {
				ok := true
				for _, in := range t.ins {
					if inList[in.Hash] && !done[in.Hash] {
						ok = false
					}
				}
				if ok {
					ready = append(ready, i)
				}
			}
			if len(ready) == 0 { // cannot happen for hash-linked transactions
				sort.Slice(left, func(i, j int) bool { return idx(left[i]) < idx(left[j]) })
				out = append(out, left...)
				break
			}
			i := ready[rng.Intn(len(ready))]
			out = append(out, left[i])
			done[left[i].hash] = true
			left = append(left[:i], left[i+1:]...)
		}
		return out
	}
	for _, b := range s.led.chain {
		for _, t := range topo(b.txs) {
			ops = append(ops, fmt.Sprintf("ev conf %s %d %s %d cr=%s", t.tid, b.height, hx(b.hash), b.time, crStr(creditsOf(t))))
		}
	}
	for _, t := range topo(s.led.pool) {
		ops = append(ops, fmt.Sprintf("ev seen %s cr=%s", t.tid, crStr(creditsOf(t))))
	}
	return ops
}

func genPair(rng *rand.Rand, nTx, steps int, mat int64) core.Case {
	s := newSim(rng, nTx, mat, simOpts{})
	// histories rich in connect / disconnect / reconnect cycles
	for i := 0; i < steps; i++ {
		switch k := rng.Intn(100); {
		case k < 25:
			s.actAccept(rng.Intn(5) == 0)
		case k < 55:
			s.actExtend(65, nil)
		case k < 85:
			d := 1 + rng.Intn(3)
			if rng.Intn(4) == 0 {
				d = int(mat) + rng.Intn(2)
			}
			s.actReorg(d)
		case k < 92:
			s.actAbandon()
		default:
			s.actDuplicate()
		}
		if rng.Intn(3) == 0 {
			s.emit("probe %d", s.top)
			s.emit("spec probe %d", s.top)
		}
	}
	s.emit("spec facts")
	s.emit("snap A %d", s.top)
	s.emit("reset mat=%d", mat)
	s.ops = append(s.ops, directConstruction(rng, s)...)
	s.emit("spec facts")
	s.emit("probe %d", s.top)
	s.emit("spec probe %d", s.top)
	s.emit("cmpsnap A %d", s.top)
	return s.caseOf("pair")
}

// genRaw: arbitrary API calls, most of them violating chain consistency (same height with two block hashes, credits
// without records, out-of-range indexes, rollbacks anywhere, removal of mined transactions ...).
func genRaw(rng *rand.Rand, nTx, steps int, mat int64) core.Case {
	s := newSim(rng, nTx, mat, simOpts{leases: true, subSecond: true})
	blocks := []*simBlock{}
	for h := int32(1); h <= 6; h++ {
		for br := 0; br < 2; br++ {
			blocks = append(blocks, &simBlock{height: h, hash: blockHash(h, 1000+br), time: 1500000000 + int64(h)*600 + int64(br)})
		}
	}
	pickBlk := func() string {
		if rng.Intn(3) == 0 {
			return ""
		}
		b := blocks[rng.Intn(len(blocks))]
		return fmt.Sprintf(" %d %s %d", b.height, hx(b.hash), b.time)
	}
	for i := 0; i < steps; i++ {
		t := s.u.txs[rng.Intn(len(s.u.txs))]
		switch k := rng.Intn(100); {
		case k < 30:
			s.emit("inserttx %s%s", t.tid, pickBlk())
		case k < 55:
			s.emit("addcredit %s %d %d%s", t.tid, rng.Intn(len(t.outs)+1), rng.Intn(2), pickBlk())
		case k < 63:
			s.emit("rollback %d", rng.Intn(8))
		case k < 70:
			s.emit("removeunmined %s", t.tid)
		case k < 80:
			b := blocks[rng.Intn(len(blocks))]
			if rng.Intn(2) == 0 {
				s.emit("ev conf %s %d %s %d cr=%s", t.tid, b.height, hx(b.hash), b.time, crStr(t.credits))
			} else {
				s.emit("ev seen %s cr=%s", t.tid, crStr(t.credits))
			}
		case k < 92:
			op := wire.OutPoint{Hash: t.hash, Index: uint32(rng.Intn(len(t.outs) + 1))}
			switch rng.Intn(4) {
			case 0, 1:
				s.emit("lock %d %s %d", 1+rng.Intn(2), opLong(op), []int64{1e9, 1500000000, 1, -1e9}[rng.Intn(4)])
			case 2:
				s.emit("unlock %d %s", 1+rng.Intn(2), opLong(op))
			default:
				s.emit("sweep")
			}
		default:
			s.setClock(s.now + []int64{1, 999999999, 1e9, 5e8}[rng.Intn(4)])
		}
		s.emit("probe %d", 7)
		if rng.Intn(2) == 0 {
			s.emit("dump")
		}
		if rng.Intn(3) == 0 {
			x := s.u.txs[rng.Intn(len(s.u.txs))]
			s.emit("details %s", hx(x.hash))
			if rng.Intn(2) == 0 {
				b := blocks[rng.Intn(len(blocks))]
				s.emit("udetails %s %d %s", hx(x.hash), b.height, hx(b.hash))
				s.emit("prevscripts %s %d %s", x.tid, b.height, hx(b.hash))
			} else {
				s.emit("prevscripts %s", x.tid)
			}
			s.emit("range %d %d", rng.Intn(9)-1, rng.Intn(9)-1)
			s.emit("watch")
		}
	}
	s.emit("bogus-op")
	s.emit("balance x 1")
	s.emit("details zz")
	return s.caseOf("raw")
}

func generate(rng *rand.Rand, tier string) []core.Case {
	var cases []core.Case
	cases = append(cases, scripted()...)
	nHist, nPair, nRaw := 220, 100, 120
	if tier == "thorough" {
		nHist, nPair, nRaw = 1200, 500, 400
	}
	for i := 0; i < nHist; i++ {
		nTx := 4 + rng.Intn(37)
		mat := int64(2 + rng.Intn(4))
		opts := simOpts{leases: i%3 != 0, subSecond: i%6 == 1, heavy: tier == "thorough" && i%10 == 0}
		s := newSim(rng, nTx, mat, opts)
		s.run(8 + rng.Intn(33))
		kind := "history"
		if opts.leases {
			kind = "history+leases"
		}
		if opts.subSecond {
			kind = "history+leases+subsecond"
		}
		cases = append(cases, s.caseOf(kind))
	}
	for i := 0; i < nPair; i++ {
		cases = append(cases, genPair(rng, 4+rng.Intn(25), 10+rng.Intn(25), int64(2+rng.Intn(3))))
	}
	for i := 0; i < nRaw; i++ {
		cases = append(cases, genRaw(rng, 3+rng.Intn(8), 15+rng.Intn(30), int64(2+rng.Intn(3))))
	}
	if tier == "thorough" {
		cases = append(cases, exhaustive()...)
	}
	// random consistent histories generated inside the Lean driver: refinement relation, ledger well-formedness,
	// store invariants and equality of every observable after every event (the Go side has nothing to add)
	nFuzz, perCase := 10, 200
	if tier == "thorough" {
		nFuzz, perCase = 40, 500
	}
	for i := 0; i < nFuzz; i++ {
		cases = append(cases, core.Case{Ops: []string{fmt.Sprintf("reffuzz %d %d %d 1", rng.Intn(1<<30), perCase, 30+rng.Intn(50))},
			Tags: []string{"reffuzz"}})
	}
	// consistent histories with injected events that no validating node emits (see simOpts.wild); generated last so that
	// the cases above are the same as before for a given seed
	nWild := 60
	if tier == "thorough" {
		nWild = 300
	}
	for i := 0; i < nWild; i++ {
		s := newSim(rng, 4+rng.Intn(20), int64(2+rng.Intn(3)), simOpts{leases: i%2 == 0, wild: true})
		s.run(8 + rng.Intn(25))
		cases = append(cases, s.caseOf("history+injected"))
	}
	return cases
}
