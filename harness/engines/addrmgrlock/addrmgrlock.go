// Package addrmgrlock: engine "addrmgr-lock" (C05, C08).
//
// Runs a real waddrmgr.Manager on a real bdb file (fast scrypt), op by op, and evaluates the property oracles of
// C05 (lock state / clear-text buffers / passphrases) and C08 (running manager == freshly opened manager) directly on
// the real outputs.  The same op lines are fed to the Lean model driver (engine addrmgr-lock).
package addrmgrlock

import (
	"crypto/sha256"
	"errors"
	"fmt"
	"os"
	"path/filepath"
	"sort"
	"strconv"
	"strings"
	"time"

	"github.com/btcsuite/btcd/btcec/v2"
	"github.com/btcsuite/btcd/btcec/v2/schnorr"
	"github.com/btcsuite/btcd/btcutil"
	"github.com/btcsuite/btcd/btcutil/hdkeychain"
	"github.com/btcsuite/btcd/chaincfg"
	"github.com/btcsuite/btcd/chaincfg/chainhash"
	"github.com/btcsuite/btcd/txscript"
	"github.com/btcsuite/btcwallet/snacl"
	"github.com/btcsuite/btcwallet/waddrmgr"
	"github.com/btcsuite/btcwallet/walletdb"
	_ "github.com/btcsuite/btcwallet/walletdb/bdb"

	"verifharness/core"
)

var (
	params = &chaincfg.MainNetParams
	nsKey  = []byte("waddrmgr")
	scopes = []waddrmgr.KeyScope{
		waddrmgr.KeyScopeBIP0044, waddrmgr.KeyScopeBIP0084, waddrmgr.KeyScopeBIP0049Plus, waddrmgr.KeyScopeBIP0086,
	}
	seedMain  = sha256.Sum256([]byte("addrmgr-lock main seed"))
	seedOther = sha256.Sum256([]byte("addrmgr-lock foreign seed (xpub accounts)"))
)

const imported = 2147483647

func init() {
	waddrmgr.SetSecretKeyGen(func(p *[]byte, _ *waddrmgr.ScryptOptions) (*snacl.SecretKey, error) {
		return snacl.NewSecretKey(p, 16, 8, 1)
	})
	core.Register(engine{})
}

// passphrase ids -> bytes; id 0 is the EMPTY passphrase; the others include near misses of each other.
func pass(id int) []byte {
	switch id {
	case 0:
		return []byte{}
	case 1:
		return []byte("correct horse battery staple")
	case 2:
		return []byte("correct horse battery staple ")
	case 3:
		return []byte("Correct horse battery staple")
	case 4:
		return []byte("correct horse battery stapl")
	case 5:
		return []byte("pub-pass")
	case 6:
		return []byte("pub-pasS")
	}
	return []byte(fmt.Sprintf("pass-%d", id))
}

// ---------------------------------------------------------------- key material (independent of the manager)

func acctIsWO(n int) bool { return n%3 == 2 }

func hard(i uint32) uint32 { return i + hdkeychain.HardenedKeyStart }

func acctXpub(sc, acct int) *hdkeychain.ExtendedKey {
	seed := seedMain[:]
	if acctIsWO(acct) {
		seed = seedOther[:]
	}
	k, _ := hdkeychain.NewMaster(seed, params)
	s := scopes[sc]
	for _, c := range []uint32{hard(s.Purpose), hard(s.Coin), hard(uint32(acct))} {
		k, _ = k.DeriveNonStandard(c) // nolint
	}
	pub, _ := k.Neuter()
	return pub
}

func addrTypeOf(sc int, internal bool) waddrmgr.AddressType {
	sch := waddrmgr.ScopeAddrMap[scopes[sc]]
	if internal {
		return sch.InternalAddrType
	}
	return sch.ExternalAddrType
}

func addrFromPub(pub *btcec.PublicKey, t waddrmgr.AddressType) btcutil.Address {
	h := btcutil.Hash160(pub.SerializeCompressed())
	switch t {
	case waddrmgr.PubKeyHash:
		a, _ := btcutil.NewAddressPubKeyHash(h, params)
		return a
	case waddrmgr.WitnessPubKey:
		a, _ := btcutil.NewAddressWitnessPubKeyHash(h, params)
		return a
	case waddrmgr.NestedWitnessPubKey:
		w, _ := btcutil.NewAddressWitnessPubKeyHash(h, params)
		prog, _ := txscript.PayToAddrScript(w)
		a, _ := btcutil.NewAddressScriptHash(prog, params)
		return a
	case waddrmgr.TaprootPubKey:
		tk := txscript.ComputeTaprootKeyNoScript(pub)
		a, _ := btcutil.NewAddressTaproot(schnorr.SerializePubKey(tk), params)
		return a
	}
	return nil
}

func impPriv(k int) *btcec.PrivateKey {
	h := sha256.Sum256([]byte(fmt.Sprintf("imported key %d", k)))
	p, _ := btcec.PrivKeyFromBytes(h[:])
	return p
}

func scriptOf(sid int) []byte {
	b := txscript.NewScriptBuilder().AddInt64(int64(sid) + 1000).AddOp(txscript.OP_DROP).AddOp(txscript.OP_TRUE)
	s, _ := b.Script()
	return s
}

func tapscriptOf(sid int) *waddrmgr.Tapscript {
	ik := impPriv(900000 + sid).PubKey()
	return &waddrmgr.Tapscript{
		Type:         waddrmgr.TapscriptTypeFullTree,
		ControlBlock: &txscript.ControlBlock{InternalKey: ik},
		Leaves:       []txscript.TapLeaf{txscript.NewBaseTapLeaf(scriptOf(sid))},
	}
}

// keyAddr computes the real address of a model key ("c:a:b:i", "i:k", "s:kind:sid") in scope sc.
func keyAddr(sc int, key string) (btcutil.Address, error) {
	f := strings.Split(key, ":")
	atoi := func(s string) int { n, _ := strconv.Atoi(s); return n }
	switch {
	case f[0] == "c" && len(f) == 4:
		k := acctXpub(sc, atoi(f[1]))
		k, err := k.DeriveNonStandard(uint32(atoi(f[2]))) // nolint
		if err != nil {
			return nil, err
		}
		k, err = k.DeriveNonStandard(uint32(atoi(f[3]))) // nolint
		if err != nil {
			return nil, err
		}
		pub, err := k.ECPubKey()
		if err != nil {
			return nil, err
		}
		return addrFromPub(pub, addrTypeOf(sc, f[2] == "1")), nil
	case f[0] == "i" && len(f) == 2:
		return addrFromPub(impPriv(atoi(f[1])).PubKey(), addrTypeOf(sc, false)), nil
	case f[0] == "s" && len(f) == 3:
		script := scriptOf(atoi(f[2]))
		switch f[1] {
		case "0":
			return btcutil.NewAddressScriptHash(script, params)
		case "1":
			h := sha256.Sum256(script)
			return btcutil.NewAddressWitnessScriptHash(h[:], params)
		case "2":
			tk, err := tapscriptOf(atoi(f[2])).TaprootKey()
			if err != nil {
				return nil, err
			}
			return btcutil.NewAddressTaproot(schnorr.SerializePubKey(tk), params)
		}
	}
	return nil, fmt.Errorf("bad key %q", key)
}

// ---------------------------------------------------------------- error canonicalisation

func errKind(err error) string {
	if err == nil {
		return "ok"
	}
	var me waddrmgr.ManagerError
	if errors.As(err, &me) {
		switch me.ErrorCode {
		case waddrmgr.ErrLocked:
			return "locked"
		case waddrmgr.ErrWatchingOnly:
			return "watchingonly"
		case waddrmgr.ErrWrongPassphrase:
			return "wrongpassphrase"
		case waddrmgr.ErrCrypto:
			return "crypto"
		case waddrmgr.ErrAccountNotFound:
			return "accountnotfound"
		case waddrmgr.ErrAddressNotFound:
			return "addressnotfound"
		case waddrmgr.ErrDuplicateAccount:
			return "duplicateaccount"
		case waddrmgr.ErrDuplicateAddress:
			return "duplicateaddress"
		case waddrmgr.ErrInvalidAccount:
			return "invalidaccount"
		case waddrmgr.ErrAccountNotCached:
			return "accountnotcached"
		case waddrmgr.ErrTooManyAddresses:
			return "toomanyaddresses"
		case waddrmgr.ErrDatabase:
			return "database"
		case waddrmgr.ErrAlreadyExists:
			return "alreadyexists"
		case waddrmgr.ErrNoExist:
			return "noexist"
		case waddrmgr.ErrBlockNotFound:
			return "blocknotfound"
		}
		return fmt.Sprintf("mgr%d", me.ErrorCode)
	}
	if errors.Is(err, hdkeychain.ErrNotPrivExtKey) {
		return "notprivextkey"
	}
	return "other:" + strings.ReplaceAll(err.Error(), " ", "_")
}

// ---------------------------------------------------------------- runner

type failTx struct{ walletdb.ReadWriteTx }

// Commit of the decorated transaction fails: the underlying bdb transaction is rolled back (what bbolt does when
// writing the pages fails) and an error is returned.
func (t failTx) Commit() error {
	_ = t.ReadWriteTx.Rollback()
	return errors.New("injected commit failure")
}

type runner struct {
	dir   string
	db    walletdb.DB
	mgr   *waddrmgr.Manager
	tx    walletdb.ReadWriteTx
	hl    bool
	flags map[string]string

	// ground truth kept by the harness for the oracles (independent of the Lean model)
	curPriv, curPub int  // passphrases that are current in the DATABASE
	snapPriv        int  // value of curPriv when the open bracket began
	privUncertain   bool // a private passphrase change sits in a rolled-back bracket: memory and db differ
	chpassInTx      bool
	dirty           bool // some bracket ended in rollback / failed commit since the manager was opened
	dirtyFailedOp   bool // an operation returned an error and its own Update was rolled back
	addrKey         [4]map[string]string
	unlockedBefore  bool
	// C08 attribution: which operation touched which cached item inside the current bracket / inside brackets that did
	// not commit since the manager was opened.  id = "addr:<sc>/<key>", "name:<sc>/<acct>", "idx:<sc>/<acct>",
	// "acct:<sc>/<acct>", "synced".
	txTouch []touch
	stale   map[string][]blame

	nextUnlockedTx  bool // an open bracket contains a NextAddresses call made while unlocked
	f13             bool // … and the manager was locked when that bracket committed (finding F13)
}

type touch struct{ id, op string }
type blame struct{ op, pre string }

func (r *runner) touch(id, op string) { r.txTouch = append(r.txTouch, touch{id, op}) }

// settle is called when a bracket ends: touches of a bracket that did not commit become blame entries; in a
// committed bracket only the shape "NextAddresses followed by ExtendAddresses on the same account" is recorded.
func (r *runner) settle(pre string) {
	if r.stale == nil {
		r.stale = map[string][]blame{}
	}
	if pre == "committed" {
		nexted := map[string]bool{}
		for _, t := range r.txTouch {
			if !strings.HasPrefix(t.id, "idx:") {
				continue
			}
			if t.op == "NextAddresses" {
				nexted[t.id] = true
			}
			if t.op == "ExtendAddresses" && nexted[t.id] {
				r.stale[t.id] = append(r.stale[t.id], blame{"NextThenExtend", "committed"})
			}
		}
	} else {
		for _, t := range r.txTouch {
			r.stale[t.id] = append(r.stale[t.id], blame{t.op, pre})
		}
	}
	r.txTouch = nil
}

// blameFor names the call site responsible for a difference on item id. Known eager mutators win over others, so
// that a NEW call site (not in known-findings) is only hidden when a known one touched the very same item.
func (r *runner) blameFor(id string) string {
	bs := r.stale[id]
	if len(bs) == 0 {
		pre := "committed"
		if r.dirty {
			pre = "rollback"
		} else if r.dirtyFailedOp {
			pre = "failed-op"
		}
		return "Unattributed." + pre
	}
	// an operation that failed normally returned before touching memory: prefer a bracket that ran and was rolled back
	rank := func(b blame) int {
		n := 0
		if b.pre != "failed-op" {
			n += 2
		}
		if b.op != "NextAddresses" {
			n++
		}
		return n
	}
	best := bs[0]
	for _, b := range bs {
		if rank(b) > rank(best) {
			best = b
		}
	}
	return best.op + "." + best.pre
}

type engine struct{}

func (engine) Name() string         { return "addrmgr-lock" }
func (engine) NewRunner() core.Runner { return &runner{} }

func (r *runner) Close() {
	if r.tx != nil {
		_ = r.tx.Rollback()
		r.tx = nil
	}
	if r.mgr != nil {
		r.mgr.Close()
		r.mgr = nil
	}
	if r.db != nil {
		_ = r.db.Close()
		r.db = nil
	}
	if r.dir != "" {
		_ = os.RemoveAll(r.dir)
		r.dir = ""
	}
}

func (r *runner) learn(sc int, key string) btcutil.Address {
	a, err := keyAddr(sc, key)
	if err != nil || a == nil {
		return nil
	}
	if r.addrKey[sc] == nil {
		r.addrKey[sc] = map[string]string{}
	}
	r.addrKey[sc][a.String()] = key
	return a
}

// view runs f with a bucket: the open bracket's if any, else a fresh read transaction.
func (r *runner) view(f func(ns walletdb.ReadBucket) error) error {
	if r.tx != nil {
		return f(r.tx.ReadWriteBucket(nsKey))
	}
	return walletdb.View(r.db, func(tx walletdb.ReadTx) error { return f(tx.ReadBucket(nsKey)) })
}

// update runs f in the open bracket, or in its own Update (commit on nil, rollback on error).
func (r *runner) update(f func(ns walletdb.ReadWriteBucket) error) error {
	if r.tx != nil {
		return f(r.tx.ReadWriteBucket(nsKey))
	}
	err := walletdb.Update(r.db, func(tx walletdb.ReadWriteTx) error { return f(tx.ReadWriteBucket(nsKey)) })
	if err != nil {
		wasDirty := r.dirty
		r.endBracket(false)
		r.dirty = wasDirty
		r.dirtyFailedOp = true
		r.settle("failed-op")
	} else {
		r.endBracket(true)
		r.settle("committed")
	}
	return err
}

func (r *runner) endBracket(committed bool) {
	if committed {
		if r.chpassInTx {
			r.snapPriv = r.curPriv
		}
	} else {
		r.dirty = true
		if r.chpassInTx {
			if r.curPriv != r.snapPriv {
				r.privUncertain = true
			}
			r.curPriv = r.snapPriv
		}
	}
	r.chpassInTx = false
}

func (r *runner) scoped(sc int) (*waddrmgr.ScopedKeyManager, error) {
	if sc < 0 || sc >= len(scopes) {
		return nil, errors.New("scope")
	}
	return r.mgr.FetchScopedKeyManager(scopes[sc])
}

func bufState(s string) string { return s }

// report canonicalises VerifBufferReport into the model's buffer names.
func (r *runner) report() []string {
	var out []string
	for _, b := range r.mgr.VerifBufferReport() {
		n := b.Name
		switch {
		case n == "masterKeyPriv.Key":
			out = append(out, "master="+b.State)
		case n == "cryptoKeyPriv":
			out = append(out, "cpriv="+b.State)
		case n == "cryptoKeyScript":
			out = append(out, "cscript="+b.State)
		case n == "hashedPrivPassphrase":
			out = append(out, "hashed="+b.State)
		case strings.HasPrefix(n, "scope["):
			end := strings.Index(n, "]")
			scs := n[6:end]
			sc := -1
			for i, s := range scopes {
				if s.String() == scs {
					sc = i
				}
			}
			rest := n[end+2:]
			switch {
			case strings.HasPrefix(rest, "acct["):
				e := strings.Index(rest, "]")
				acct := rest[5:e]
				what := rest[e+2:]
				switch what {
				case "acctKeyPriv":
					out = append(out, fmt.Sprintf("s%d.acct%s.priv=%s", sc, acct, b.State))
				case "lastExternalAddr.privKeyCT":
					out = append(out, fmt.Sprintf("s%d.acct%s.lastext=%s", sc, acct, b.State))
				case "lastInternalAddr.privKeyCT":
					out = append(out, fmt.Sprintf("s%d.acct%s.lastint=%s", sc, acct, b.State))
				}
			case strings.HasPrefix(rest, "addr["):
				e := strings.Index(rest, "]")
				as := rest[5:e]
				key, ok := r.addrKey[sc][as]
				if !ok {
					key = "?" + as
				}
				out = append(out, fmt.Sprintf("s%d.addr.%s.ct=%s", sc, key, b.State))
			case strings.HasPrefix(rest, "privKeyCache["):
				e := strings.Index(rest, "]")
				// the hook prints DerivationPath.Account (hardened); the model names the internal account
				pf := strings.Split(rest[13:e], "/")
				if a := atoi(pf[0]); a >= 1<<31 {
					pf[0] = strconv.Itoa(a - 1<<31)
				}
				out = append(out, fmt.Sprintf("s%d.pkc.%s=%s", sc, strings.Join(pf, "/"), b.State))
			case strings.HasPrefix(rest, "deriveOnUnlock.len="):
				out = append(out, fmt.Sprintf("s%d.dou=%s", sc, rest[len("deriveOnUnlock.len="):]))
			}
		}
	}
	sort.Strings(out)
	return out
}

// wipedOracle: C05 "locking clears every in-memory clear-text copy of master, crypto, account and address private
// keys, including cached derived keys" evaluated on the hook report of the real manager.
func (r *runner) wipedOracle() string {
	if r.mgr == nil || !(r.mgr.IsLocked()) {
		return ""
	}
	var v []string
	seen := map[string]bool{}
	for _, b := range r.mgr.VerifBufferReport() {
		if b.State != "nonzero" {
			continue
		}
		n := b.Name
		key := ""
		switch {
		case n == "masterKeyPriv.Key" || n == "cryptoKeyPriv" || n == "cryptoKeyScript" || n == "hashedPrivPassphrase":
			key = "lock." + n + "-not-wiped"
		case strings.Contains(n, "acctKeyPriv"):
			key = "lock.acctKeyPriv-not-wiped"
		case r.f13 && (strings.HasSuffix(n, ".privKeyCT")):
			// address objects built while unlocked, inserted by the OnCommit closure after the manager was locked
			key = "OnCommit.cleartext-key-cached-after-lock"
		case strings.Contains(n, "lastExternalAddr") || strings.Contains(n, "lastInternalAddr"):
			key = "lock.last-address-privkey-not-wiped"
		case strings.Contains(n, "privKeyCache["):
			key = "lock.privKeyCache-not-wiped"
		case strings.HasSuffix(n, ".privKeyCT"):
			key = "lock.privKeyCT-not-wiped"
		case strings.HasSuffix(n, ".scriptClearText"):
			// decision (notes/C05.md, O1): scripts are not private keys. The clear text of an imported P2SH script
			// IS wiped by lock(); secret witness/taproot script clear text is not. Only the former is demanded.
			if r.isP2SH(n) {
				key = "lock.scriptClearText-not-wiped"
			}
		}
		if key != "" && !seen[key] {
			seen[key] = true
			v = append(v, fmt.Sprintf("C05 key=%s: buffer %s is non-zero while the manager is locked", key, n))
		}
	}
	return strings.Join(v, "; ")
}

func (r *runner) isP2SH(name string) bool {
	i := strings.Index(name, "addr[")
	if i < 0 {
		return false
	}
	as := name[i+5:]
	as = as[:strings.Index(as, "]")]
	for sc := range r.addrKey {
		if k, ok := r.addrKey[sc][as]; ok {
			return strings.HasPrefix(k, "s:0:")
		}
	}
	return false
}

func joinV(vs ...string) string {
	var o []string
	for _, v := range vs {
		if v != "" {
			o = append(o, v)
		}
	}
	return strings.Join(o, "; ")
}

func atoi(s string) int { n, _ := strconv.Atoi(s); return n }

// denied: a private-material operation succeeded although the manager was locked or watching-only.
func (r *runner) denied(wasLocked, wasWO bool, kind, opName, key string) string {
	if (wasLocked || wasWO) && kind == "ok" {
		return fmt.Sprintf("C05 key=%s: %s succeeded while locked=%v watchingOnly=%v", key, opName, wasLocked, wasWO)
	}
	return ""
}

func (r *runner) Exec(op string) (string, string) {
	cmd, kv := core.KV(op)
	if cmd == "create" {
		return r.create(kv)
	}
	if r.mgr == nil {
		if cmd == "reopen" && r.db != nil {
			return r.reopen(kv)
		}
		switch cmd {
		case "begin", "commit", "rollback", "commitfail":
			if r.db != nil {
				break
			}
			return "err nomanager", ""
		default:
			return "err nomanager", ""
		}
	}
	reply, viol := r.exec(cmd, kv)
	if r.mgr != nil {
		viol = joinV(viol, r.wipedOracle())
	}
	return reply, viol
}

func (r *runner) create(kv map[string]string) (string, string) {
	r.Close()
	*r = runner{}
	for _, k := range []string{"pub", "priv", "f1", "f2", "f2b", "f3", "f11", "f12", "hl", "f13", "fo1"} {
		if _, ok := kv[k]; !ok {
			return "bad-op", ""
		}
	}
	dir, err := os.MkdirTemp("", "addrlock")
	if err != nil {
		return "err tmp", ""
	}
	r.dir = dir
	r.hl = kv["hl"] == "1"
	r.flags = kv
	db, err := walletdb.Create("bdb", filepath.Join(dir, "w.db"), true, 10*time.Second, false)
	if err != nil {
		return "err db", ""
	}
	r.db = db
	root, _ := hdkeychain.NewMaster(seedMain[:], params)
	pub, priv := atoi(kv["pub"]), atoi(kv["priv"])
	err = walletdb.Update(db, func(tx walletdb.ReadWriteTx) error {
		ns, err := tx.CreateTopLevelBucket(nsKey)
		if err != nil {
			return err
		}
		err = waddrmgr.Create(ns, root, pass(pub), pass(priv), params, &waddrmgr.FastScryptOptions, time.Unix(1600000000, 0))
		if err != nil {
			return err
		}
		r.mgr, err = waddrmgr.Open(ns, pass(pub), params)
		return err
	})
	if err != nil {
		return "err " + errKind(err), ""
	}
	r.curPriv, r.curPub, r.snapPriv = priv, pub, priv
	return "ok", ""
}

func (r *runner) reopen(kv map[string]string) (string, string) {
	if r.tx != nil {
		return "err txopen", ""
	}
	if r.mgr != nil {
		r.mgr.Close()
		r.mgr = nil
	}
	pub := atoi(kv["pub"])
	var m *waddrmgr.Manager
	err := walletdb.View(r.db, func(tx walletdb.ReadTx) error {
		var err error
		m, err = waddrmgr.Open(tx.ReadBucket(nsKey), pass(pub), params)
		return err
	})
	viol := ""
	if pub == r.curPub && err != nil {
		viol = "C05 key=Open.current-public-passphrase-fails: " + err.Error()
	}
	if pub != r.curPub && err == nil {
		viol = "C05 key=Open.wrong-public-passphrase-accepted: opened"
	}
	if err != nil {
		return "err " + errKind(err), viol
	}
	r.mgr = m
	r.f13 = false
	r.dirtyFailedOp = false
	r.stale = nil
	r.txTouch = nil
	r.dirty = false
	r.privUncertain = false
	r.unlockedBefore = false
	return "ok", viol
}

func (r *runner) exec(cmd string, kv map[string]string) (reply, viol string) {
	m := r.mgr
	sc := atoi(kv["sc"])
	var wasLocked, wasWO bool
	if m != nil {
		wasLocked, wasWO = m.IsLocked(), m.WatchOnly()
	}
	e := func(err error) string {
		if err == nil {
			return "ok"
		}
		return "err " + errKind(err)
	}
	switch cmd {
	case "reopen":
		return r.reopen(kv)
	case "begin":
		if r.tx != nil {
			return "err txopen", ""
		}
		tx, err := r.db.BeginReadWriteTx()
		if err != nil {
			return "err db", ""
		}
		r.tx = tx
		r.txTouch = nil
		r.snapPriv = r.curPriv
		r.chpassInTx = false
		r.nextUnlockedTx = false
		return "ok", ""
	case "commit", "rollback", "commitfail":
		if r.tx == nil {
			return "err notx", ""
		}
		tx := r.tx
		r.tx = nil
		switch cmd {
		case "commit":
			if err := tx.Commit(); err != nil {
				return "err db", ""
			}
			if r.nextUnlockedTx && m != nil && m.IsLocked() {
				r.f13 = true
			}
			r.endBracket(true)
			r.settle("committed")
		case "rollback":
			_ = tx.Rollback()
			r.endBracket(false)
			r.settle("rollback")
		case "commitfail":
			if err := (failTx{tx}).Commit(); err == nil {
				return "err db", ""
			}
			r.endBracket(false)
			r.settle("rollback")
		}
		return "ok", ""
	case "bufs":
		return strings.Join(r.report(), " "), ""
	case "unlock":
		return r.unlock(atoi(kv["p"]))
	case "lock":
		err := m.Lock()
		if err == nil && !m.IsLocked() {
			viol = "C05 key=Lock.not-locked-after: Lock returned nil but IsLocked() is false"
		}
		return e(err), viol
	case "chpass":
		old, nw, priv := atoi(kv["old"]), atoi(kv["new"]), kv["priv"] == "1"
		err := r.update(func(ns walletdb.ReadWriteBucket) error {
			err := m.ChangePassphrase(ns, pass(old), pass(nw), priv, &waddrmgr.FastScryptOptions)
			if err == nil {
				if priv {
					r.curPriv = nw
					r.chpassInTx = true
				} else {
					r.curPub = nw // public passphrase: only checked at reopen, generator keeps brackets committed
				}
			}
			return err
		})
		if r.tx == nil && err != nil && priv {
			// own Update rolled back: nothing changed
		}
		if err == nil && m.IsLocked() != wasLocked {
			viol = "C05 key=ChangePassphrase.lock-state-changed: lock state changed by a passphrase change"
		}
		return e(err), viol
	case "convertwo":
		err := r.update(func(ns walletdb.ReadWriteBucket) error { return m.ConvertToWatchingOnly(ns) })
		return e(err), ""
	case "newacct":
		s, err := r.scoped(sc)
		if err != nil {
			return "err scopenotfound", ""
		}
		wo := kv["wo"] == "1"
		var acct uint32
		skipped := false
		err = r.update(func(ns walletdb.ReadWriteBucket) error {
			last, err := s.LastAccount(ns)
			if err != nil {
				return err
			}
			if exp, ok := kv["expect"]; ok && int(last)+1 != atoi(exp) {
				skipped = true
				return nil
			}
			r.touch(fmt.Sprintf("acct:%d/%d", sc, int(last)+1), "NewAccount")
			if wo {
				acct, err = s.NewAccountWatchingOnly(ns, kv["name"], acctXpub(sc, int(last)+1), 0, nil)
			} else {
				acct, err = s.NewAccount(ns, kv["name"])
			}
			return err
		})
		if skipped {
			return "skipped", ""
		}
		if !wo {
			viol = r.denied(wasLocked, wasWO, errKind(err), "NewAccount", "NewAccount.succeeds-while-locked")
		}
		if err != nil {
			return e(err), viol
		}
		return fmt.Sprintf("acct %d", acct), viol
	case "rename":
		s, err := r.scoped(sc)
		if err != nil {
			return "err scopenotfound", ""
		}
		r.touch(fmt.Sprintf("name:%d/%s", sc, kv["acct"]), "RenameAccount")
		err = r.update(func(ns walletdb.ReadWriteBucket) error {
			return s.RenameAccount(ns, uint32(atoi(kv["acct"])), kv["name"])
		})
		return e(err), ""
	case "next":
		if atoi(kv["n"]) == 0 {
			return "bad-op", "" // outside the modelled domain (the OnCommit closure indexes an empty slice)
		}
		keys, err := r.next(sc, atoi(kv["acct"]), atoi(kv["n"]), kv["int"] == "1")
		if err != nil {
			return e(err), ""
		}
		if r.tx != nil && !wasLocked {
			r.nextUnlockedTx = true
		}
		return "keys " + strings.Join(keys, ","), ""
	case "extend":
		s, err := r.scoped(sc)
		if err != nil {
			return "err scopenotfound", ""
		}
		acct, last, internal := atoi(kv["acct"]), atoi(kv["last"]), kv["int"] == "1"
		br := 0
		if internal {
			br = 1
		}
		r.touch(fmt.Sprintf("idx:%d/%d", sc, acct), "ExtendAddresses")
		for i := 0; i <= last && i < 64; i++ {
			r.learn(sc, fmt.Sprintf("c:%d:%d:%d", acct, br, i))
			r.touch(fmt.Sprintf("addr:%d/c:%d:%d:%d", sc, acct, br, i), "ExtendAddresses")
		}
		err = r.update(func(ns walletdb.ReadWriteBucket) error {
			if internal {
				return s.ExtendInternalAddresses(ns, uint32(acct), uint32(last))
			}
			return s.ExtendExternalAddresses(ns, uint32(acct), uint32(last))
		})
		return e(err), ""
	case "impkey":
		s, err := r.scoped(sc)
		if err != nil {
			return "err scopenotfound", ""
		}
		k, priv := atoi(kv["k"]), kv["priv"] == "1"
		r.learn(sc, fmt.Sprintf("i:%d", k))
		r.touch(fmt.Sprintf("addr:%d/i:%d", sc, k), map[bool]string{true: "ImportPrivateKey", false: "ImportPublicKey"}[priv])
		err = r.update(func(ns walletdb.ReadWriteBucket) error {
			bs := &waddrmgr.BlockStamp{Height: 0}
			if priv {
				wif, err := btcutil.NewWIF(impPriv(k), params, true)
				if err != nil {
					return err
				}
				_, err = s.ImportPrivateKey(ns, wif, bs)
				return err
			}
			_, err := s.ImportPublicKey(ns, impPriv(k).PubKey(), bs)
			return err
		})
		if priv {
			// in watching-only mode ImportPrivateKey stores the public key only (documented); only the locked,
			// non-watching-only case must be refused.
			viol = r.denied(wasLocked && !wasWO, false, errKind(err), "ImportPrivateKey", "ImportPrivateKey.succeeds-while-locked")
		}
		return e(err), viol
	case "impscript":
		s, err := r.scoped(sc)
		if err != nil {
			return "err scopenotfound", ""
		}
		kind, sid, secret := atoi(kv["kind"]), atoi(kv["sid"]), kv["secret"] == "1"
		if kind < 0 || kind > 2 {
			return "bad-op", ""
		}
		if kind == 0 {
			secret = true
		}
		scriptAddr := r.learn(sc, fmt.Sprintf("s:%d:%d", kind, sid))
		r.touch(fmt.Sprintf("addr:%d/s:%d:%d", sc, kind, sid), "ImportScript")
		err = r.update(func(ns walletdb.ReadWriteBucket) error {
			bs := &waddrmgr.BlockStamp{Height: 0}
			var err error
			switch kind {
			case 0:
				_, err = s.ImportScript(ns, scriptOf(sid), bs)
			case 1:
				_, err = s.ImportWitnessScript(ns, scriptOf(sid), bs, 0, secret)
			case 2:
				_, err = s.ImportTaprootScript(ns, tapscriptOf(sid), bs, 1, secret)
			default:
				err = errors.New("kind")
			}
			return err
		})
		if err == nil && scriptAddr != nil {
			r.flags[fmt.Sprintf("secret:%d:%s", sc, scriptAddr.String())] = map[bool]string{true: "1", false: "0"}[secret]
		}
		if secret {
			viol = r.denied(wasLocked, wasWO, errKind(err), "ImportScript(secret)", "ImportScript.succeeds-while-locked")
		}
		return e(err), viol
	case "markused":
		s, err := r.scoped(sc)
		if err != nil {
			return "err scopenotfound", ""
		}
		a := r.learn(sc, kv["key"])
		if a == nil {
			return "bad-op", ""
		}
		err = r.update(func(ns walletdb.ReadWriteBucket) error { return s.MarkUsed(ns, a) })
		return e(err), ""
	case "setsynced":
		h, x := atoi(kv["h"]), atoi(kv["hash"])
		r.touch("synced", "SetSyncedTo")
		err := r.update(func(ns walletdb.ReadWriteBucket) error {
			return m.SetSyncedTo(ns, &waddrmgr.BlockStamp{Height: int32(h), Hash: hashOf(x), Timestamp: time.Unix(1700000000, 0)})
		})
		return e(err), ""
	case "setbirthday":
		err := r.update(func(ns walletdb.ReadWriteBucket) error {
			return m.SetBirthdayBlock(ns, waddrmgr.BlockStamp{Height: 0, Hash: *params.GenesisHash}, true)
		})
		return e(err), ""
	case "privkey", "script":
		s, err := r.scoped(sc)
		if err != nil {
			return "err scopenotfound", ""
		}
		a := r.learn(sc, kv["key"])
		if a == nil {
			return "bad-op", ""
		}
		var ma waddrmgr.ManagedAddress
		err = r.view(func(ns walletdb.ReadBucket) error {
			var err error
			ma, err = s.Address(ns, a)
			return err
		})
		if err != nil {
			return e(err), ""
		}
		if cmd == "privkey" {
			pa, ok := ma.(waddrmgr.ManagedPubKeyAddress)
			if !ok {
				return "err notpubkey", ""
			}
			return r.privKeyProbe(pa, wasLocked, wasWO, "PrivKey")
		}
		sa, ok := ma.(waddrmgr.ManagedScriptAddress)
		if !ok {
			return "err notscript", ""
		}
		_, err = sa.Script()
		secret := true
		if k := kv["key"]; !strings.HasPrefix(k, "s:0:") {
			// witness / taproot scripts may be public; only secret ones are private material
			secret = r.isSecretScript(sc, sa)
		}
		if secret {
			viol = r.denied(wasLocked, wasWO, errKind(err), "Script", "Script.succeeds-while-locked")
		}
		return e(err), viol
	case "lastprivkey":
		s, err := r.scoped(sc)
		if err != nil {
			return "err scopenotfound", ""
		}
		var ma waddrmgr.ManagedAddress
		err = r.view(func(ns walletdb.ReadBucket) error {
			var err error
			if kv["int"] == "1" {
				ma, err = s.LastInternalAddress(ns, uint32(atoi(kv["acct"])))
			} else {
				ma, err = s.LastExternalAddress(ns, uint32(atoi(kv["acct"])))
			}
			return err
		})
		if err != nil {
			return e(err), ""
		}
		return r.privKeyProbe(ma.(waddrmgr.ManagedPubKeyAddress), wasLocked, wasWO, "PrivKey(last address)")
	case "crypt":
		if k := atoi(kv["kt"]); k < 0 || k > 2 {
			return "bad-op", ""
		}
		kt := waddrmgr.CryptoKeyType(atoi(kv["kt"]))
		ct, err := m.Encrypt(kt, []byte("some secret bytes"))
		if err == nil {
			var pt []byte
			pt, err = m.Decrypt(kt, ct)
			if err == nil && string(pt) != "some secret bytes" {
				err = errors.New("roundtrip")
			}
		}
		if kt != waddrmgr.CKTPublic {
			viol = r.denied(wasLocked, wasWO, errKind(err), "Encrypt/Decrypt(private key type)", "Decrypt.succeeds-while-locked")
		}
		return e(err), viol
	case "derive":
		s, err := r.scoped(sc)
		if err != nil {
			return "err scopenotfound", ""
		}
		path := r.path(sc, kv)
		var ma waddrmgr.ManagedAddress
		err = r.view(func(ns walletdb.ReadBucket) error {
			var err error
			ma, err = s.DeriveFromKeyPath(ns, path)
			return err
		})
		if err != nil {
			return e(err), ""
		}
		return r.privKeyProbe(ma.(waddrmgr.ManagedPubKeyAddress), wasLocked, wasWO, "DeriveFromKeyPath+PrivKey")
	case "dcache":
		s, err := r.scoped(sc)
		if err != nil {
			return "err scopenotfound", ""
		}
		_, err = s.DeriveFromKeyPathCache(r.path(sc, kv))
		viol = r.denied(wasLocked, wasWO, errKind(err), "DeriveFromKeyPathCache", "DeriveFromKeyPathCache.cached-path-while-locked")
		return e(err), viol
	case "cmpq":
		return r.cmpq(kv)
	case "nextcmp":
		return r.nextcmp(sc, atoi(kv["acct"]), kv["int"] == "1")
	}
	if strings.HasPrefix(cmd, "q.") {
		if r.mgr == nil {
			return "err nomanager", ""
		}
		var out string
		_ = r.view(func(ns walletdb.ReadBucket) error {
			out = r.query(r.mgr, ns, cmd, kv)
			return nil
		})
		return out, ""
	}
	return "bad-op", ""
}

func hashOf(x int) chainhash.Hash {
	var h chainhash.Hash
	h[0] = byte(x)
	h[1] = byte(x >> 8)
	h[2] = byte(x >> 16)
	return h
}

func unhash(h chainhash.Hash) int {
	if h == *params.GenesisHash {
		return 0 // the model names the genesis hash 0
	}
	return int(h[0]) | int(h[1])<<8 | int(h[2])<<16
}

func (r *runner) isSecretScript(sc int, sa waddrmgr.ManagedScriptAddress) bool {
	// the flag is unexported; the harness knows it from the key's import op (recorded in flags by learnSecret)
	if v, ok := r.flags[fmt.Sprintf("secret:%d:%s", sc, sa.Address().String())]; ok {
		return v == "1"
	}
	return true
}

func (r *runner) path(sc int, kv map[string]string) waddrmgr.DerivationPath {
	acct := atoi(kv["acct"])
	return waddrmgr.DerivationPath{
		InternalAccount: uint32(acct), Account: hard(uint32(acct)),
		Branch: uint32(atoi(kv["br"])), Index: uint32(atoi(kv["idx"])),
	}
}

func (r *runner) privKeyProbe(pa waddrmgr.ManagedPubKeyAddress, wasLocked, wasWO bool, what string) (string, string) {
	pk, err := pa.PrivKey()
	_, err2 := pa.ExportPrivKey()
	viol := ""
	if (err == nil) != (err2 == nil) {
		viol = "C05 key=ExportPrivKey.differs-from-PrivKey: PrivKey and ExportPrivKey disagree"
	}
	viol = joinV(viol, r.denied(wasLocked, wasWO, errKind(err), what, "PrivKey.succeeds-while-locked"))
	if err == nil && pk != nil && !pk.PubKey().IsEqual(pa.PubKey()) {
		viol = joinV(viol, "C05 key=PrivKey.wrong-key: returned private key does not match the address public key")
	}
	if err != nil {
		return "err " + errKind(err), viol
	}
	return "ok", viol
}

func (r *runner) unlock(p int) (reply, viol string) {
	m := r.mgr
	wasLocked, wasWO := m.IsLocked(), m.WatchOnly()
	var err error
	panicked := false
	func() {
		defer func() {
			if x := recover(); x != nil {
				panicked = true
			}
		}()
		err = r.view(func(ns walletdb.ReadBucket) error { return m.Unlock(ns, pass(p)) })
	}()
	kind := errKind(err)
	if panicked {
		kind = "panic"
	}
	switch {
	case wasWO:
		if kind != "watchingonly" {
			viol = "C05 key=Unlock.watching-only-not-refused: Unlock on a watching-only manager returned " + kind
		}
	case r.privUncertain:
		// memory and database disagree about the passphrase (rolled-back change): no ground truth, see notes/C08.md
	case p == r.curPriv:
		if kind != "ok" || m.IsLocked() {
			key := "Unlock.correct-passphrase-fails"
			switch {
			case panicked:
				key = "Unlock.watch-only-account-derive-on-unlock-panic"
			case err != nil && strings.Contains(err.Error(), "failed to decrypt account"):
				key = "Unlock.watch-only-account-cached"
			case p == 0 && !wasLocked:
				key = "Unlock.empty-passphrase-salt-aliased"
			}
			viol = fmt.Sprintf("C05 key=%s: Unlock with the current private passphrase returned %s (locked before=%v, after=%v)",
				key, kind, wasLocked, m.IsLocked())
		}
	default:
		if kind == "ok" {
			viol = "C05 key=Unlock.wrong-passphrase-accepted: Unlock with a wrong passphrase succeeded"
		} else if !m.IsLocked() {
			viol = "C05 key=Unlock.wrong-passphrase-leaves-unlocked: manager unlocked after a failed Unlock"
		} else if kind != "wrongpassphrase" {
			viol = "C05 key=Unlock.wrong-passphrase-wrong-error: " + kind
		}
	}
	if kind == "ok" {
		r.f13 = false
		return "ok", viol
	}
	return "err " + kind, viol
}

func (r *runner) next(sc, acct, n int, internal bool) ([]string, error) {
	s, err := r.scoped(sc)
	if err != nil {
		return nil, waddrmgr.ManagerError{ErrorCode: waddrmgr.ErrScopeNotFound}
	}
	var mas []waddrmgr.ManagedAddress
	r.touch(fmt.Sprintf("idx:%d/%d", sc, acct), "NextAddresses")
	err = r.update(func(ns walletdb.ReadWriteBucket) error {
		var err error
		if internal {
			mas, err = s.NextInternalAddresses(ns, uint32(acct), uint32(n))
		} else {
			mas, err = s.NextExternalAddresses(ns, uint32(acct), uint32(n))
		}
		for _, k := range r.keysOf(sc, mas) {
			r.touch(fmt.Sprintf("addr:%d/%s", sc, k), "NextAddresses")
		}
		return err
	})
	if err != nil {
		return nil, err
	}
	return r.keysOf(sc, mas), nil
}

// keysOf names the returned addresses by their derivation info and cross-checks the address against the harness's
// own derivation.
func (r *runner) keysOf(sc int, mas []waddrmgr.ManagedAddress) []string {
	var keys []string
	for _, ma := range mas {
		pa := ma.(waddrmgr.ManagedPubKeyAddress)
		_, dp, _ := pa.DerivationInfo()
		key := fmt.Sprintf("c:%d:%d:%d", dp.InternalAccount, dp.Branch, dp.Index)
		a := r.learn(sc, key)
		if a == nil || a.String() != ma.Address().String() {
			key = "MISMATCH:" + key
		}
		keys = append(keys, key)
	}
	return keys
}

// query answers one C08 query on manager m in canonical form.
func (r *runner) query(m *waddrmgr.Manager, ns walletdb.ReadBucket, cmd string, kv map[string]string) string {
	sc := atoi(kv["sc"])
	if cmd == "q.synced" {
		bs := m.SyncedTo()
		return fmt.Sprintf("synced %d %d", bs.Height, unhash(bs.Hash))
	}
	if cmd == "q.hash" {
		h, err := m.BlockHash(ns, int32(atoi(kv["h"])))
		if err != nil {
			return "err " + errKind(err)
		}
		return fmt.Sprintf("hash %d", unhash(*h))
	}
	if sc < 0 || sc >= len(scopes) {
		return "err scopenotfound"
	}
	s, err := m.FetchScopedKeyManager(scopes[sc])
	if err != nil {
		return "err scopenotfound"
	}
	maStr := func(ma waddrmgr.ManagedAddress) string {
		key, ok := r.addrKey[sc][ma.Address().String()]
		if !ok {
			key = "?" + ma.Address().String()
		}
		return fmt.Sprintf("addr %s %d", key, ma.InternalAccount())
	}
	switch cmd {
	case "q.address":
		a := r.learn(sc, kv["key"])
		if a == nil {
			return "bad-op"
		}
		ma, err := s.Address(ns, a)
		if err != nil {
			return "err " + errKind(err)
		}
		return maStr(ma)
	case "q.props":
		p, err := s.AccountProperties(ns, uint32(atoi(kv["acct"])))
		if err != nil {
			return "err " + errKind(err)
		}
		return fmt.Sprintf("props %s %d %d %d", p.AccountName, p.ExternalKeyCount, p.InternalKeyCount, p.ImportedKeyCount)
	case "q.last":
		var ma waddrmgr.ManagedAddress
		if kv["int"] == "1" {
			ma, err = s.LastInternalAddress(ns, uint32(atoi(kv["acct"])))
		} else {
			ma, err = s.LastExternalAddress(ns, uint32(atoi(kv["acct"])))
		}
		if err != nil {
			return "err " + errKind(err)
		}
		return maStr(ma)
	case "q.lookup":
		a, err := s.LookupAccount(ns, kv["name"])
		if err != nil {
			return "err " + errKind(err)
		}
		return fmt.Sprintf("acct %d", a)
	case "q.name":
		n, err := s.AccountName(ns, uint32(atoi(kv["acct"])))
		if err != nil {
			return "err " + errKind(err)
		}
		return "name " + n
	case "q.used":
		a := r.learn(sc, kv["key"])
		if a == nil {
			return "bad-op"
		}
		// ManagedAddress.Used reads the used bucket by address hash; ask through a managed address when known,
		// else report false like the bucket lookup would.
		ma, err := s.Address(ns, a)
		if err != nil {
			return "used 0"
		}
		if ma.Used(ns) {
			return "used 1"
		}
		return "used 0"
	}
	return "bad-op"
}

type qd struct{ id, cmd string; kv map[string]string }

func universe(kv map[string]string) []qd {
	var qs []qd
	split := func(s string) [][2]string {
		var o [][2]string
		for _, t := range core.CSV(s) {
			i := strings.IndexByte(t, '/')
			if i < 0 {
				panic("malformed cmpq")
			}
			o = append(o, [2]string{t[:i], t[i+1:]})
		}
		return o
	}
	keys := split(kv["keys"])
	for _, k := range keys {
		qs = append(qs, qd{"address:" + k[0] + "/" + k[1], "q.address", map[string]string{"sc": k[0], "key": k[1]}})
	}
	for _, a := range split(kv["accts"]) {
		qs = append(qs, qd{"props:" + a[0] + "/" + a[1], "q.props", map[string]string{"sc": a[0], "acct": a[1]}})
		qs = append(qs, qd{"last:" + a[0] + "/" + a[1] + "/0", "q.last", map[string]string{"sc": a[0], "acct": a[1], "int": "0"}})
		qs = append(qs, qd{"last:" + a[0] + "/" + a[1] + "/1", "q.last", map[string]string{"sc": a[0], "acct": a[1], "int": "1"}})
		qs = append(qs, qd{"name:" + a[0] + "/" + a[1], "q.name", map[string]string{"sc": a[0], "acct": a[1]}})
	}
	for _, n := range split(kv["names"]) {
		qs = append(qs, qd{"lookup:" + n[0] + "/" + n[1], "q.lookup", map[string]string{"sc": n[0], "name": n[1]}})
	}
	for _, k := range keys {
		qs = append(qs, qd{"used:" + k[0] + "/" + k[1], "q.used", map[string]string{"sc": k[0], "key": k[1]}})
	}
	qs = append(qs, qd{"synced", "q.synced", map[string]string{}})
	for _, h := range core.CSV(kv["hs"]) {
		qs = append(qs, qd{"hash:" + h, "q.hash", map[string]string{"h": h}})
	}
	return qs
}

// cmpq: C08 "the running address manager answers queries … exactly as a freshly opened manager on the same database".
func (r *runner) cmpq(kv map[string]string) (string, string) {
	if r.tx != nil {
		return "err txopen", ""
	}
	var diffs, viols []string
	seen := map[string]bool{}
	malformed := false
	func() {
		defer func() {
			if recover() != nil {
				malformed = true
			}
		}()
		universe(kv)
	}()
	if malformed {
		return "bad-op", ""
	}
	err := walletdb.View(r.db, func(tx walletdb.ReadTx) error {
		ns := tx.ReadBucket(nsKey)
		m2, err := waddrmgr.Open(ns, pass(r.curPub), params)
		if err != nil {
			return err
		}
		defer m2.Close()
		for _, q := range universe(kv) {
			a1 := r.query(r.mgr, ns, q.cmd, q.kv)
			a2 := r.query(m2, ns, q.cmd, q.kv)
			if a1 == a2 {
				continue
			}
			diffs = append(diffs, q.id)
			class := "query-differs"
			switch q.cmd {
			case "q.address":
				class = "address-cache-not-reverted"
				// the address row is in the database for both managers, only the running one knows the account it
				// belongs to (an orphan row left by a failed putChainedAddress of a cache-only account)
				if strings.Contains(a1, "accountnotfound") != strings.Contains(a2, "accountnotfound") {
					class = "account-cache-not-reverted"
				}
			case "q.props":
				f1, f2 := strings.Fields(a1), strings.Fields(a2)
				switch {
				case len(f1) != 5 || len(f2) != 5:
					class = "account-cache-not-reverted"
				case f1[1] != f2[1]:
					class = "account-name-cache-not-reverted"
				default:
					class = "next-index-differs"
				}
			case "q.last":
				class = "last-address-differs"
				if strings.Contains(a1, "accountnotfound") != strings.Contains(a2, "accountnotfound") {
					class = "account-cache-not-reverted"
				}
			case "q.used":
				class = "used-flag-differs"
			case "q.synced":
				class = "synced-to-not-reverted"
			}
			// account the query is about: explicit, or the account of a chained address key "c:<acct>:<branch>:<index>"
			qacct := q.kv["acct"]
			if f := strings.Split(q.kv["key"], ":"); qacct == "" && len(f) == 4 && f[0] == "c" {
				qacct = f[1]
			}
			item := ""
			switch class {
			case "address-cache-not-reverted", "used-flag-differs":
				item = "addr:" + q.kv["sc"] + "/" + q.kv["key"]
			case "account-name-cache-not-reverted":
				item = "name:" + q.kv["sc"] + "/" + q.kv["acct"]
			case "next-index-differs", "last-address-differs":
				item = "idx:" + q.kv["sc"] + "/" + q.kv["acct"]
			case "account-cache-not-reverted":
				item = "acct:" + q.kv["sc"] + "/" + qacct
			case "synced-to-not-reverted":
				item = "synced"
			}
			// an account that only exists in the cache (created in a bracket that did not commit) explains name /
			// index differences of that account number too, and differences on the chained addresses of that account
			// (Address / Used resolve an orphan address row through the stale acctInfo entry)
			if _, ok := r.stale[item]; !ok && qacct != "" {
				if alt := "acct:" + q.kv["sc"] + "/" + qacct; len(r.stale[alt]) > 0 {
					item = alt
				}
			}
			key := r.blameFor(item) + "." + class
			if !seen[key] {
				seen[key] = true
				viols = append(viols, fmt.Sprintf("C08 key=%s: %s answers %q on the running manager and %q on a freshly opened one",
					key, q.id, a1, a2))
			}
		}
		return nil
	})
	if err != nil {
		return "err " + errKind(err), ""
	}
	if len(diffs) == 0 {
		return "same", ""
	}
	return "diff " + strings.Join(diffs, ","), strings.Join(viols, "; ")
}

// nextcmp: C08 "the next committed request issues the very address a restarted wallet would issue".
func (r *runner) nextcmp(sc, acct int, internal bool) (string, string) {
	if r.tx != nil {
		return "err txopen", ""
	}
	if sc < 0 || sc >= len(scopes) {
		return "bad-op", ""
	}
	// what a freshly opened manager would issue (in a transaction that is rolled back)
	var fresh string
	tx, err := r.db.BeginReadWriteTx()
	if err != nil {
		return "err db", ""
	}
	func() {
		defer tx.Rollback()
		ns := tx.ReadWriteBucket(nsKey)
		m2, err := waddrmgr.Open(ns, pass(r.curPub), params)
		if err != nil {
			fresh = "err " + errKind(err)
			return
		}
		defer m2.Close()
		s2, _ := m2.FetchScopedKeyManager(scopes[sc])
		var mas []waddrmgr.ManagedAddress
		if internal {
			mas, err = s2.NextInternalAddresses(ns, uint32(acct), 1)
		} else {
			mas, err = s2.NextExternalAddresses(ns, uint32(acct), 1)
		}
		if err != nil {
			fresh = "err " + errKind(err)
			return
		}
		fresh = "keys " + strings.Join(r.keysOf(sc, mas), ",")
	}()
	keys, err := r.next(sc, acct, 1, internal)
	run := "err " + errKind(err)
	if err == nil {
		run = "keys " + strings.Join(keys, ",")
	}
	viol := ""
	if run != fresh {
		item := fmt.Sprintf("idx:%d/%d", sc, acct)
		// an account that only exists in the cache: the running manager gets as far as putChainedAddress ("database"),
		// a restarted one does not know the account at all - whoever else touched the index is not to blame
		if alt := fmt.Sprintf("acct:%d/%d", sc, acct); len(r.stale[alt]) > 0 &&
			strings.Contains(run, "accountnotfound") != strings.Contains(fresh, "accountnotfound") {
			item = alt
		}
		pre := r.blameFor(item)
		viol = fmt.Sprintf("C08 key=%s.next-address-differs-from-restart: running manager issued %q, a restarted one would issue %q", pre, run, fresh)
	}
	return fmt.Sprintf("run=%s fresh=%s", run, fresh), viol
}
