package addrmgrlock

import (
	"fmt"
	"math/rand"
	"os"
	"path/filepath"
	"sort"
	"strings"
	"time"

	"github.com/btcsuite/btcd/btcutil/hdkeychain"
	"github.com/btcsuite/btcwallet/waddrmgr"
	"github.com/btcsuite/btcwallet/walletdb"

	"verifharness/core"
)

// ---------------------------------------------------------------- variant detection (which fixes the tree has)

// detect runs five tiny probes on the real code and returns the `f…` flags of the `create` op line. The Lean model
// takes the same flags, so one model follows the original snapshot and the fixed tree.
func detect() string {
	dir, _ := os.MkdirTemp("", "addrlock-probe")
	defer os.RemoveAll(dir)
	n := 0
	fresh := func() (walletdb.DB, *waddrmgr.Manager) {
		n++
		db, err := walletdb.Create("bdb", filepath.Join(dir, fmt.Sprintf("p%d.db", n)), true, 10*time.Second, false)
		if err != nil {
			panic(err)
		}
		var m *waddrmgr.Manager
		root, _ := hdkeychain.NewMaster(seedMain[:], params)
		err = walletdb.Update(db, func(tx walletdb.ReadWriteTx) error {
			ns, err := tx.CreateTopLevelBucket(nsKey)
			if err != nil {
				return err
			}
			if err := waddrmgr.Create(ns, root, pass(5), pass(1), params, &waddrmgr.FastScryptOptions, time.Unix(1600000000, 0)); err != nil {
				return err
			}
			m, err = waddrmgr.Open(ns, pass(5), params)
			return err
		})
		if err != nil {
			panic(err)
		}
		return db, m
	}
	upd := func(db walletdb.DB, f func(ns walletdb.ReadWriteBucket) error) error {
		return walletdb.Update(db, func(tx walletdb.ReadWriteTx) error { return f(tx.ReadWriteBucket(nsKey)) })
	}
	b := func(x bool) string {
		if x {
			return "1"
		}
		return "0"
	}
	path := waddrmgr.DerivationPath{InternalAccount: 0, Account: hard(0), Branch: 0, Index: 0}

	// f1
	db, m := fresh()
	s, _ := m.FetchScopedKeyManager(scopes[1])
	_ = upd(db, func(ns walletdb.ReadWriteBucket) error { return m.Unlock(ns, pass(1)) })
	_ = upd(db, func(ns walletdb.ReadWriteBucket) error { _, err := s.DeriveFromKeyPath(ns, path); return err })
	_, _ = s.DeriveFromKeyPathCache(path)
	_ = m.Lock()
	_, err := s.DeriveFromKeyPathCache(path)
	f1 := err != nil
	// f11 / hl (same manager: account 0 was loaded while unlocked)
	hl, f11 := false, true
	for _, x := range m.VerifBufferReport() {
		if strings.Contains(x.Name, "lastExternalAddr") {
			hl = true
			if x.State == "nonzero" {
				f11 = false
			}
		}
	}
	m.Close()
	db.Close()

	// f2 / f2b
	db, m = fresh()
	s, _ = m.FetchScopedKeyManager(scopes[1])
	_ = upd(db, func(ns walletdb.ReadWriteBucket) error {
		_, err := s.NewAccountWatchingOnly(ns, "probe", acctXpub(1, 2), 0, nil)
		return err
	})
	_ = upd(db, func(ns walletdb.ReadWriteBucket) error { _, err := s.AccountProperties(ns, 1); return err })
	f2, f2b := true, true
	func() {
		defer func() {
			if recover() != nil {
				f2b = false
			}
		}()
		err := upd(db, func(ns walletdb.ReadWriteBucket) error { return m.Unlock(ns, pass(1)) })
		if err != nil {
			f2, f2b = false, false
		}
	}()
	db.Close()

	// f3
	db, m = fresh()
	s, _ = m.FetchScopedKeyManager(scopes[1])
	_ = upd(db, func(ns walletdb.ReadWriteBucket) error { return m.Unlock(ns, pass(1)) })
	_ = upd(db, func(ns walletdb.ReadWriteBucket) error { return s.ExtendExternalAddresses(ns, 0, 0) })
	f3 := false
	_ = upd(db, func(ns walletdb.ReadWriteBucket) error {
		a, _ := keyAddr(1, "c:0:0:0")
		ma, err := s.Address(ns, a)
		if err == nil {
			_, err = ma.(waddrmgr.ManagedPubKeyAddress).PrivKey()
			f3 = err == nil
		}
		return nil
	})
	m.Close()
	db.Close()

	// f12
	db, m = fresh()
	_ = upd(db, func(ns walletdb.ReadWriteBucket) error { return m.Unlock(ns, pass(1)) })
	_ = upd(db, func(ns walletdb.ReadWriteBucket) error {
		return m.ChangePassphrase(ns, pass(1), pass(0), true, &waddrmgr.FastScryptOptions)
	})
	f12 := upd(db, func(ns walletdb.ReadWriteBucket) error { return m.Unlock(ns, pass(0)) }) == nil
	m.Close()
	db.Close()

	// fo1 (Unlock restores cryptoKeyScript) and f13 (the OnCommit closure wipes objects cached after a Lock)
	db, m = fresh()
	s, _ = m.FetchScopedKeyManager(scopes[1])
	_ = upd(db, func(ns walletdb.ReadWriteBucket) error { return m.Unlock(ns, pass(1)) })
	fo1 := false
	for _, x := range m.VerifBufferReport() {
		if x.Name == "cryptoKeyScript" && x.State == "nonzero" {
			fo1 = true
		}
	}
	_ = upd(db, func(ns walletdb.ReadWriteBucket) error {
		if _, err := s.NextExternalAddresses(ns, 0, 1); err != nil {
			return err
		}
		return m.Lock()
	})
	f13 := true
	for _, x := range m.VerifBufferReport() {
		if strings.HasSuffix(x.Name, ".privKeyCT") && x.State == "nonzero" {
			f13 = false
		}
	}
	m.Close()
	db.Close()

	return fmt.Sprintf("f1=%s f2=%s f2b=%s f3=%s f11=%s f12=%s hl=%s f13=%s fo1=%s", b(f1), b(f2), b(f2b), b(f3), b(f11),
		b(f12), b(hl), b(f13), b(fo1))
}

// ---------------------------------------------------------------- generator

type gen struct {
	rng   *rand.Rand
	flags string
	ops   []string
	tags  map[string]bool

	pub, priv  int // passphrases believed current
	inTx       bool
	lastAcct   [4]int
	snapLast   [4]int
	scs        []int
	accts      map[string]bool // "sc/acct"
	names      map[string]bool // "sc/name"
	keys       map[string]bool // "sc/key"
	hs         map[int]bool
	imp, sid   int
	nameN      int
	height     int
	chpassInTx bool
	snapPriv   int

	// beliefs used only to predict account numbers (the `expect` guard keeps both sides consistent anyway)
	locked, mwo, dwo, snapDwo bool
}

func newGen(rng *rand.Rand, flags string) *gen {
	g := &gen{rng: rng, flags: flags, tags: map[string]bool{}, accts: map[string]bool{}, names: map[string]bool{},
		keys: map[string]bool{}, hs: map[int]bool{0: true}}
	return g
}

func (g *gen) add(f string, a ...interface{}) { g.ops = append(g.ops, fmt.Sprintf(f, a...)) }

func (g *gen) create(pub, priv int, scs []int) {
	g.pub, g.priv = pub, priv
	g.scs = scs
	g.locked = true
	g.add("create pub=%d priv=%d %s", pub, priv, g.flags)
	for _, sc := range scs {
		g.accts[fmt.Sprintf("%d/0", sc)] = true
		g.names[fmt.Sprintf("%d/default", sc)] = true
		g.names[fmt.Sprintf("%d/imported", sc)] = true
	}
}

func sorted(m map[string]bool) []string {
	var o []string
	for k := range m {
		o = append(o, k)
	}
	sort.Strings(o)
	return o
}

func (g *gen) cmpq() {
	var hs []string
	var hk []int
	for h := range g.hs {
		hk = append(hk, h)
	}
	sort.Ints(hk)
	for _, h := range hk {
		hs = append(hs, fmt.Sprint(h))
	}
	accts := sorted(g.accts)
	for _, sc := range g.scs {
		accts = append(accts, fmt.Sprintf("%d/%d", sc, imported))
	}
	g.add("cmpq accts=%s names=%s keys=%s hs=%s", strings.Join(accts, ","), strings.Join(sorted(g.names), ","),
		strings.Join(sorted(g.keys), ","), strings.Join(hs, ","))
}

// probes: every private accessor on every managed address and account known so far, plus the buffer report.
func (g *gen) probes() {
	for _, sk := range sorted(g.keys) {
		i := strings.IndexByte(sk, '/')
		sc, key := sk[:i], sk[i+1:]
		if strings.HasPrefix(key, "s:") {
			g.add("script sc=%s key=%s", sc, key)
		} else {
			g.add("privkey sc=%s key=%s", sc, key)
		}
	}
	for _, sa := range sorted(g.accts) {
		i := strings.IndexByte(sa, '/')
		sc, acct := sa[:i], sa[i+1:]
		g.add("lastprivkey sc=%s acct=%s int=0", sc, acct)
		g.add("lastprivkey sc=%s acct=%s int=1", sc, acct)
		g.add("dcache sc=%s acct=%s br=0 idx=0", sc, acct)
		g.add("derive sc=%s acct=%s br=1 idx=%d", sc, acct, g.rng.Intn(3))
		g.add("dcache sc=%s acct=%s br=1 idx=%d", sc, acct, g.rng.Intn(3))
	}
	for kt := 0; kt <= 2; kt++ {
		g.add("crypt kt=%d", kt)
	}
	g.add("bufs")
}

func (g *gen) begin() {
	g.add("begin")
	g.inTx = true
	g.snapLast = g.lastAcct
	g.snapPriv = g.priv
	g.snapDwo = g.dwo
}

func (g *gen) end(how string) {
	g.add(how)
	g.inTx = false
	if how != "commit" {
		g.lastAcct = g.snapLast
		g.priv = g.snapPriv
		g.dwo = g.snapDwo
	}
	g.add("bufs")
	g.cmpq()
}

func (g *gen) sc() int { return g.scs[g.rng.Intn(len(g.scs))] }

func (g *gen) anyAcct(sc int) int {
	var c []int
	for n := 0; n <= g.lastAcct[sc]+1; n++ {
		c = append(c, n)
	}
	return c[g.rng.Intn(len(c))]
}

func (g *gen) newAcct(sc int) {
	n := g.lastAcct[sc] + 1
	wo := 0
	if acctIsWO(n) {
		wo = 1
	}
	g.nameN++
	name := fmt.Sprintf("acct%d", g.nameN)
	if g.rng.Intn(10) == 0 {
		name = []string{"", "imported", "default"}[g.rng.Intn(3)]
	}
	g.add("newacct sc=%d name=%s wo=%d expect=%d", sc, name, wo, n)
	if name != "" && name != "imported" && !g.names[fmt.Sprintf("%d/%s", sc, name)] && (wo == 1 || (!g.locked && !g.mwo)) {
		g.lastAcct[sc] = n
	}
	// optimistic: the runner/driver guard (`expect`) keeps both sides consistent when the guess is wrong
	g.accts[fmt.Sprintf("%d/%d", sc, n)] = true
	if name != "" {
		g.names[fmt.Sprintf("%d/%s", sc, name)] = true
	}
}

// noteCreated is called by scenario code when it knows the account creation succeeds.
func (g *gen) noteCreated(sc int) { g.lastAcct[sc]++ }

func (g *gen) key(sc int) string {
	var c []string
	for _, sk := range sorted(g.keys) {
		if strings.HasPrefix(sk, fmt.Sprintf("%d/", sc)) {
			c = append(c, sk[strings.IndexByte(sk, '/')+1:])
		}
	}
	if len(c) == 0 || g.rng.Intn(8) == 0 {
		return fmt.Sprintf("c:%d:%d:%d", g.anyAcct(sc), g.rng.Intn(2), g.rng.Intn(4))
	}
	return c[g.rng.Intn(len(c))]
}

func (g *gen) noteKeys(sc, acct, br, from, n int) {
	for i := from; i < from+n && i < from+6; i++ {
		g.keys[fmt.Sprintf("%d/c:%d:%d:%d", sc, acct, br, i)] = true
	}
}

// randomOp emits one random state-changing op (the generator does not know the exact outcome; it only keeps the
// query universe large enough).
func (g *gen) randomOp(locky bool) {
	sc := g.sc()
	r := g.rng.Intn(100)
	switch {
	case r < 14:
		acct, n, in := g.anyAcct(sc), 1+g.rng.Intn(2), g.rng.Intn(2)
		g.add("next sc=%d acct=%d n=%d int=%d", sc, acct, n, in)
		g.noteKeys(sc, acct, in, 0, 6)
		g.accts[fmt.Sprintf("%d/%d", sc, acct)] = true
	case r < 22:
		acct, in := g.anyAcct(sc), g.rng.Intn(2)
		last := g.rng.Intn(5)
		g.add("extend sc=%d acct=%d last=%d int=%d", sc, acct, last, in)
		g.noteKeys(sc, acct, in, 0, 6)
		g.accts[fmt.Sprintf("%d/%d", sc, acct)] = true
	case r < 30:
		g.newAcct(sc)
	case r < 36:
		g.nameN++
		name := fmt.Sprintf("ren%d", g.nameN)
		if g.rng.Intn(6) == 0 {
			name = []string{"", "imported", "default"}[g.rng.Intn(3)]
		}
		acct := g.anyAcct(sc)
		if g.rng.Intn(12) == 0 {
			acct = imported
		}
		g.add("rename sc=%d acct=%d name=%s", sc, acct, name)
		if name != "" {
			g.names[fmt.Sprintf("%d/%s", sc, name)] = true
		}
	case r < 43:
		k := g.imp
		if g.rng.Intn(4) != 0 {
			g.imp++
		} else if k > 0 {
			k = g.rng.Intn(k)
		}
		g.add("impkey sc=%d k=%d priv=%d", sc, k, g.rng.Intn(2))
		g.keys[fmt.Sprintf("%d/i:%d", sc, k)] = true
	case r < 50:
		sid := g.sid
		if g.rng.Intn(4) != 0 {
			g.sid++
		} else if sid > 0 {
			sid = g.rng.Intn(sid)
		}
		kind := g.rng.Intn(3)
		g.add("impscript sc=%d kind=%d sid=%d secret=%d", sc, kind, sid, g.rng.Intn(2))
		g.keys[fmt.Sprintf("%d/s:%d:%d", sc, kind, sid)] = true
	case r < 55:
		g.add("markused sc=%d key=%s", sc, g.key(sc))
	case r < 60:
		g.height++
		if g.rng.Intn(5) == 0 && g.height > 2 {
			g.height -= 2
		}
		if g.rng.Intn(6) == 0 {
			g.add("setbirthday")
		}
		hh := g.height
		if g.rng.Intn(6) == 0 {
			hh += 2 + g.rng.Intn(3) // a gap: refused once the birthday block is known
		}
		g.add("setsynced h=%d hash=%d", hh, 1+g.rng.Intn(1000))
		g.hs[hh] = true
	case r < 68:
		g.add("q.address sc=%d key=%s", sc, g.key(sc))
	case r < 72:
		g.add("q.props sc=%d acct=%d", sc, g.anyAcct(sc))
	case r < 75:
		g.add("q.last sc=%d acct=%d int=%d", sc, g.anyAcct(sc), g.rng.Intn(2))
	case r < 80 && locky:
		if g.rng.Intn(3) == 0 {
			g.add("unlock p=%d", g.wrongPass())
			g.locked = true
		} else {
			g.add("unlock p=%d", g.priv)
			g.locked = g.mwo
		}
	case r < 84 && locky:
		g.add("lock")
		g.locked = true
	case r < 88 && locky:
		nw := g.rng.Intn(5)
		old := g.priv
		if g.rng.Intn(4) == 0 {
			old = g.wrongPass()
		}
		g.add("chpass old=%d new=%d priv=1", old, nw)
		if old == g.priv {
			g.priv = nw // believed; in watching-only mode it fails, which only makes later unlocks "wrong"
		}
	case r < 90 && locky && !g.inTx:
		nw := 5 + g.rng.Intn(2)
		g.add("chpass old=%d new=%d priv=0", g.pub, nw)
		g.pub = nw
	case r < 92:
		g.add("derive sc=%d acct=%d br=%d idx=%d", sc, g.anyAcct(sc), g.rng.Intn(2), g.rng.Intn(3))
	case r < 96:
		g.add("dcache sc=%d acct=%d br=%d idx=%d", sc, g.anyAcct(sc), g.rng.Intn(2), g.rng.Intn(3))
	default:
		g.add("privkey sc=%d key=%s", sc, g.key(sc))
	}
	g.add("bufs")
}

func (g *gen) wrongPass() int {
	for {
		p := g.rng.Intn(5)
		if p != g.priv {
			return p
		}
	}
}

// randomCase: a random interleaving with brackets, restarts, probes.
func (g *gen) randomCase(n int) {
	all := []int{0, 1, 2, 3}
	g.rng.Shuffle(4, func(i, j int) { all[i], all[j] = all[j], all[i] })
	g.create(5, 1+g.rng.Intn(4), all[:1+g.rng.Intn(2)])
	convertAt := -1
	if g.rng.Intn(6) == 0 {
		convertAt = g.rng.Intn(n)
	}
	for i := 0; i < n; i++ {
		r := g.rng.Intn(100)
		switch {
		case i == convertAt:
			g.add("convertwo")
			g.locked, g.mwo, g.dwo = true, true, true
			g.probes()
		case r < 18 && !g.inTx:
			g.begin()
			k := 1 + g.rng.Intn(3)
			for j := 0; j < k; j++ {
				g.randomOp(g.rng.Intn(4) == 0)
			}
			g.end([]string{"commit", "commit", "rollback", "commitfail"}[g.rng.Intn(4)])
			if g.rng.Intn(2) == 0 {
				sc := g.sc()
				g.add("nextcmp sc=%d acct=%d int=%d", sc, g.anyAcct(sc), g.rng.Intn(2))
				g.noteKeys(sc, 0, 0, 0, 6)
				g.cmpq()
			}
		case r < 24 && !g.inTx:
			p := g.pub
			if g.rng.Intn(8) == 0 {
				p = 6 + g.rng.Intn(2)
			}
			g.add("reopen pub=%d", p)
			g.locked, g.mwo = true, g.dwo
			if p != g.pub {
				g.add("bufs")
				g.add("reopen pub=%d", g.pub)
			}
			g.probes()
		case r < 34:
			g.probes()
		default:
			g.randomOp(true)
		}
	}
	g.cmpq()
	g.probes()
}

func (g *gen) out(tag string) core.Case {
	return core.Case{Ops: g.ops, Tags: []string{tag}}
}

// scenarios: the directed cases (known defect shapes, leads, every eager mutator in a rolled-back bracket).
func scenarios(rng *rand.Rand, flags string) []core.Case {
	var cs []core.Case
	mk := func(tag string, f func(g *gen)) {
		g := newGen(rng, flags)
		f(g)
		cs = append(cs, g.out(tag))
	}
	// F1: cached derived key after Lock
	mk("scn-f1", func(g *gen) {
		g.create(5, 1, []int{1})
		g.add("unlock p=1")
		g.add("derive sc=1 acct=0 br=0 idx=3")
		g.add("dcache sc=1 acct=0 br=0 idx=3")
		g.add("dcache sc=1 acct=0 br=0 idx=3")
		g.add("bufs")
		g.add("lock")
		g.add("bufs")
		g.add("dcache sc=1 acct=0 br=0 idx=3")
		g.add("dcache sc=1 acct=0 br=0 idx=4")
		g.add("unlock p=1")
		g.add("dcache sc=1 acct=0 br=0 idx=3")
		g.add("bufs")
	})
	// F2 / F2b: watch-only account in the cache, loaded while locked / while unlocked
	for _, whileLocked := range []bool{true, false} {
		wl := whileLocked
		mk("scn-f2", func(g *gen) {
			g.create(5, 1, []int{1})
			g.add("newacct sc=1 name=a1 wo=0 expect=1")
			g.add("unlock p=1")
			g.add("newacct sc=1 name=a1 wo=0 expect=1")
			g.add("newacct sc=1 name=xp wo=1 expect=2")
			g.accts["1/1"], g.accts["1/2"] = true, true
			if wl {
				g.add("lock")
			}
			g.add("q.props sc=1 acct=2")
			g.add("next sc=1 acct=2 n=2 int=0")
			g.noteKeys(1, 2, 0, 0, 3)
			g.add("bufs")
			if !wl {
				g.add("dcache sc=1 acct=2 br=0 idx=0")
				g.add("lock")
			}
			g.add("unlock p=1")
			g.add("bufs")
			g.probes()
			g.add("lock")
			g.add("extend sc=1 acct=2 last=4 int=1")
			g.noteKeys(1, 2, 1, 0, 5)
			g.add("unlock p=2")
			g.add("unlock p=1")
			g.probes()
		})
	}
	// F11: last addresses loaded while unlocked, then Lock
	mk("scn-f11", func(g *gen) {
		g.create(5, 1, []int{0, 3})
		g.add("unlock p=1")
		g.add("q.last sc=0 acct=0 int=0")
		g.add("next sc=3 acct=0 n=2 int=1")
		g.noteKeys(3, 0, 1, 0, 2)
		g.add("bufs")
		g.add("lock")
		g.add("bufs")
		g.probes()
		g.add("reopen pub=5")
		g.add("q.props sc=3 acct=0")
		g.add("unlock p=1")
		g.add("bufs")
		g.add("lastprivkey sc=3 acct=0 int=1")
		g.add("lock")
		g.add("bufs")
	})
	// F13: Lock between NextAddresses and the commit of its transaction
	for _, internal := range []int{0, 1} {
		in := internal
		mk("scn-f13", func(g *gen) {
			g.create(5, 1, []int{1, 2})
			g.add("unlock p=1")
			g.add("impscript sc=1 kind=1 sid=4 secret=1")
			g.keys["1/s:1:4"] = true
			g.add("script sc=1 key=s:1:4")
			g.begin()
			g.add("next sc=1 acct=0 n=2 int=%d", in)
			g.add("next sc=2 acct=0 n=1 int=%d", 1-in)
			g.noteKeys(1, 0, in, 0, 2)
			g.noteKeys(2, 0, 1-in, 0, 1)
			g.add("lock")
			g.add("bufs")
			g.end("commit")
			g.probes()
			g.add("unlock p=1")
			g.probes()
			g.add("lock")
			g.add("bufs")
		})
	}
	// lead (b): change the private passphrase while unlocked, then Unlock(old)/Unlock(new) BEFORE any lock
	for _, first := range []string{"old", "new"} {
		f := first
		mk("scn-chpass-unlocked", func(g *gen) {
			g.create(5, 1, []int{1})
			g.add("unlock p=1")
			g.add("chpass old=1 new=2 priv=1")
			g.priv = 2
			g.add("bufs")
			if f == "old" {
				g.add("unlock p=1")
				g.add("bufs")
				g.add("unlock p=2")
			} else {
				g.add("unlock p=2")
				g.add("bufs")
				g.add("unlock p=1")
				g.add("unlock p=2")
			}
			g.add("bufs")
			g.add("lock")
			g.add("unlock p=1")
			g.add("unlock p=2")
			g.add("reopen pub=5")
			g.add("unlock p=1")
			g.add("unlock p=2")
			g.add("chpass old=1 new=3 priv=1")
			g.add("lock")
			g.add("chpass old=2 new=3 priv=1")
			g.add("unlock p=2")
			g.add("unlock p=3")
			g.add("chpass old=5 new=6 priv=0")
			g.add("reopen pub=5")
			g.add("reopen pub=6")
			g.add("unlock p=3")
			g.probes()
		})
	}
	// lead (a): EMPTY private passphrase (accepted by ChangePassphrase, not by Create)
	for _, unlocked := range []bool{true, false} {
		u := unlocked
		mk("scn-empty-pass", func(g *gen) {
			g.create(5, 1, []int{1})
			if u {
				g.add("unlock p=1")
			}
			g.add("chpass old=1 new=0 priv=1")
			g.priv = 0
			g.add("bufs")
			g.add("unlock p=0")
			g.add("bufs")
			g.add("unlock p=0")
			g.add("unlock p=0")
			g.add("unlock p=1")
			g.add("unlock p=0")
			g.add("lock")
			g.add("unlock p=0")
			g.add("unlock p=0")
			g.add("reopen pub=5")
			g.add("unlock p=0")
			g.add("unlock p=0")
			g.add("bufs")
			g.add("chpass old=0 new=3 priv=1")
			g.add("unlock p=3")
			g.add("unlock p=0")
		})
	}
	// C08: rename of a CACHED imported-xpub account, committed (the cache must follow for every account row type)
	mk("scn-c08-rename-xpub", func(g *gen) {
		g.create(5, 1, []int{1})
		g.add("unlock p=1")
		g.add("newacct sc=1 name=a1 wo=0 expect=1")
		g.add("newacct sc=1 name=xp wo=1 expect=2")
		g.accts["1/1"], g.accts["1/2"] = true, true
		g.names["1/a1"], g.names["1/xp"], g.names["1/xp2"], g.names["1/a1b"] = true, true, true, true
		g.add("q.props sc=1 acct=2")
		g.add("q.props sc=1 acct=1")
		g.add("rename sc=1 acct=2 name=xp2")
		g.add("rename sc=1 acct=1 name=a1b")
		g.add("q.props sc=1 acct=2")
		g.cmpq()
		g.add("reopen pub=5")
		g.cmpq()
	})
	// C08: a SetSyncedTo that is refused (birthday block known, predecessor hash missing) must not move SyncedTo()
	for _, how := range []string{"rollback", "commit", "none"} {
		how := how
		mk("scn-c08-synced-refused", func(g *gen) {
			g.create(5, 1, []int{1})
			g.add("setsynced h=1 hash=11")
			g.add("setbirthday")
			g.hs[1], g.hs[2], g.hs[5] = true, true, true
			if how != "none" {
				g.begin()
			}
			g.add("setsynced h=5 hash=55")
			g.add("q.synced")
			if how != "none" {
				g.end(how)
			}
			g.cmpq()
			g.add("setsynced h=2 hash=22")
			g.add("q.synced")
			g.cmpq()
		})
	}
	// C08: an account that lives only in the acctInfo cache (created in a rolled-back bracket), then a FAILING
	// NextAddresses / ExtendAddresses on it inside a bracket that is committed anyway: putChainedAddress has written
	// the address row (putAddress) before it finds the account row missing, so an orphan address row is committed;
	// the running manager resolves it through the stale account, a restarted one answers ErrAccountNotFound.
	for _, how := range []string{"commit", "rollback", "commitfail"} {
		for _, mut := range []string{"next sc=1 acct=1 n=2 int=0", "extend sc=1 acct=1 last=1 int=1"} {
			how, mut := how, mut
			mk("scn-c08-orphan-row-"+how, func(g *gen) {
				g.create(5, 1, []int{1})
				g.add("unlock p=1")
				g.begin()
				g.add("newacct sc=1 name=fresh wo=0 expect=1")
				g.add("q.props sc=1 acct=1")
				g.accts["1/1"] = true
				g.names["1/fresh"] = true
				g.end("rollback")
				g.noteKeys(1, 1, 0, 0, 3)
				g.noteKeys(1, 1, 1, 0, 3)
				g.begin()
				g.add("%s", mut)
				g.add("q.address sc=1 key=c:1:0:0")
				g.add("q.address sc=1 key=c:1:1:0")
				g.end(how)
				g.add("markused sc=1 key=c:1:0:0")
				g.add("markused sc=1 key=c:1:1:0")
				g.cmpq()
				g.add("newacct sc=1 name=fresh wo=0 expect=1")
				g.cmpq()
				g.add("nextcmp sc=1 acct=1 int=0")
				g.add("nextcmp sc=1 acct=1 int=1")
				g.cmpq()
				g.probes()
				g.add("reopen pub=5")
				g.cmpq()
			})
		}
	}
	// C08: every eager mutator inside a rolled-back / failed-commit / committed bracket
	muts := []func(g *gen){
		func(g *gen) { g.add("next sc=1 acct=0 n=1 int=1"); g.noteKeys(1, 0, 1, 0, 2) },
		func(g *gen) { g.add("extend sc=1 acct=0 last=2 int=0"); g.noteKeys(1, 0, 0, 0, 4) },
		func(g *gen) { g.add("rename sc=1 acct=0 name=renamed"); g.names["1/renamed"] = true },
		func(g *gen) { g.add("setsynced h=1 hash=77"); g.hs[1] = true },
		func(g *gen) { g.add("impkey sc=1 k=7 priv=1"); g.keys["1/i:7"] = true },
		func(g *gen) { g.add("impkey sc=1 k=8 priv=0"); g.keys["1/i:8"] = true },
		func(g *gen) { g.add("impscript sc=1 kind=0 sid=1 secret=1"); g.keys["1/s:0:1"] = true },
		func(g *gen) { g.add("impscript sc=1 kind=2 sid=2 secret=1"); g.keys["1/s:2:2"] = true },
		func(g *gen) {
			g.add("newacct sc=1 name=fresh wo=0 expect=1")
			g.add("q.props sc=1 acct=1")
			g.accts["1/1"] = true
			g.names["1/fresh"] = true
		},
		func(g *gen) { g.add("markused sc=1 key=c:0:0:0") },
		func(g *gen) { g.add("chpass old=1 new=2 priv=1") },
		func(g *gen) { g.add("convertwo") },
		func(g *gen) {
			g.add("next sc=1 acct=0 n=1 int=0")
			g.add("extend sc=1 acct=0 last=3 int=0")
			g.noteKeys(1, 0, 0, 0, 5)
		},
		func(g *gen) {
			g.add("next sc=1 acct=0 n=2 int=0")
			g.add("next sc=1 acct=0 n=1 int=0")
			g.noteKeys(1, 0, 0, 0, 5)
		},
	}
	for mi, mu := range muts {
		for _, how := range []string{"rollback", "commitfail", "commit"} {
			for _, unlocked := range []bool{true, false} {
				mu, how, unlocked, mi := mu, how, unlocked, mi
				mk(fmt.Sprintf("scn-c08-%d-%s", mi, how), func(g *gen) {
					g.create(5, 1, []int{1})
					g.add("next sc=1 acct=0 n=1 int=0")
					g.noteKeys(1, 0, 0, 0, 1)
					if unlocked {
						g.add("unlock p=1")
					}
					g.begin()
					mu(g)
					g.add("bufs")
					g.end(how)
					g.add("nextcmp sc=1 acct=0 int=0")
					g.noteKeys(1, 0, 0, 0, 6)
					g.add("nextcmp sc=1 acct=0 int=1")
					g.noteKeys(1, 0, 1, 0, 3)
					g.cmpq()
					if mi == 4 || mi == 5 {
						g.add("impkey sc=1 k=%d priv=%d", 7+mi-4, 5-mi)
					}
					if mi == 10 {
						g.add("lock")
						g.add("unlock p=2")
						g.add("unlock p=1")
						g.add("reopen pub=5")
						g.add("unlock p=2")
						g.add("unlock p=1")
					}
					g.probes()
					g.add("reopen pub=5")
					g.cmpq()
				})
			}
		}
	}
	return cs
}

// exhaustive small scope (thorough): all lock/unlock/change-pass/wrong-pass/restart sequences up to length L with a
// probe block at the end of each, and all labelings {commit, rollback, commitfail} of short mutator sequences.
func exhaustive(rng *rand.Rand, flags string, L int) []core.Case {
	var cs []core.Case
	alpha := []string{"unlock-right", "unlock-wrong", "lock", "chpass", "chpass-wrong", "reopen", "chpass-empty"}
	var rec func(seq []int)
	rec = func(seq []int) {
		if len(seq) > 0 {
			g := newGen(rng, flags)
			g.create(5, 1, []int{1})
			g.add("unlock p=1")
			g.add("next sc=1 acct=0 n=1 int=0")
			g.noteKeys(1, 0, 0, 0, 1)
			g.add("lock")
			for _, a := range seq {
				switch alpha[a] {
				case "unlock-right":
					g.add("unlock p=%d", g.priv)
				case "unlock-wrong":
					g.add("unlock p=%d", (g.priv+1)%5)
				case "lock":
					g.add("lock")
				case "chpass":
					nw := g.priv%4 + 1
					g.add("chpass old=%d new=%d priv=1", g.priv, nw)
					g.priv = nw
				case "chpass-empty":
					g.add("chpass old=%d new=0 priv=1", g.priv)
					g.priv = 0
				case "chpass-wrong":
					g.add("chpass old=%d new=4 priv=1", (g.priv+2)%5)
				case "reopen":
					g.add("reopen pub=5")
				}
				g.add("bufs")
				g.add("privkey sc=1 key=c:0:0:0")
			}
			g.add("unlock p=%d", (g.priv+3)%5)
			g.add("unlock p=%d", g.priv)
			g.add("privkey sc=1 key=c:0:0:0")
			cs = append(cs, g.out("exh-lock"))
		}
		if len(seq) == L {
			return
		}
		for a := range alpha {
			rec(append(append([]int{}, seq...), a))
		}
	}
	rec(nil)

	muts := []string{"next sc=1 acct=0 n=1 int=0", "extend sc=1 acct=0 last=1 int=0", "rename sc=1 acct=0 name=zz",
		"impkey sc=1 k=1 priv=0", "setsynced h=1 hash=5", "newacct sc=1 name=nn wo=0 expect=1"}
	hows := []string{"commit", "rollback", "commitfail"}
	for a := range muts {
		for b := range muts {
			for _, h1 := range hows {
				for _, h2 := range hows {
					g := newGen(rng, flags)
					g.create(5, 1, []int{1})
					g.add("unlock p=1")
					g.names["1/zz"], g.names["1/nn"], g.accts["1/1"], g.keys["1/i:1"], g.hs[1] = true, true, true, true, true
					g.noteKeys(1, 0, 0, 0, 4)
					g.begin()
					g.add(muts[a])
					g.end(h1)
					g.begin()
					g.add(muts[b])
					g.end(h2)
					g.add("nextcmp sc=1 acct=0 int=0")
					g.cmpq()
					cs = append(cs, g.out("exh-c08"))
				}
			}
		}
	}
	return cs
}

func (engine) Generate(rng *rand.Rand, tier string) []core.Case {
	flags := detect()
	cases := scenarios(rng, flags)
	nRandom, nOps := 40, 45
	if tier == "thorough" {
		nRandom = 600
		cases = append(cases, exhaustive(rng, flags, 4)...)
	}
	for i := 0; i < nRandom; i++ {
		g := newGen(rng, flags)
		g.randomCase(nOps)
		cases = append(cases, g.out("random"))
	}
	// malformed stream
	g := newGen(rng, flags)
	g.ops = []string{"create pub=5 priv=1 " + flags, "unlock p=9", "create pub=5", "create pub=5 priv=1 " + flags, "frobnicate", "next sc=1 acct=0 n=0 int=0",
		"impscript sc=1 kind=9 sid=1 secret=1", "crypt kt=7", "privkey sc=1 key=zz", "commit", "rollback", "begin", "begin",
		"reopen pub=5", "commit", "q.hash h=99", "q.name sc=1 acct=44", "cmpq accts=x"}
	cases = append(cases, g.out("malformed"))
	return cases
}
