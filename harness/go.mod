module verifharness

go 1.22

require (
	github.com/btcsuite/btcwallet v0.16.10
	github.com/btcsuite/btcwallet/wallet/txauthor v1.3.5
	github.com/btcsuite/btcwallet/wallet/txrules v1.2.2
	github.com/btcsuite/btcwallet/wallet/txsizes v1.2.5
	github.com/btcsuite/btcwallet/walletdb v1.5.1
	github.com/btcsuite/btcwallet/wtxmgr v1.5.6
)

require (
	github.com/btcsuite/btclog v0.0.0-20170628155309-84c8d2346e9f // indirect
	go.etcd.io/bbolt v1.3.11 // indirect
	golang.org/x/sys v0.19.0 // indirect
)

replace github.com/btcsuite/btcwallet => /repo

replace github.com/btcsuite/btcwallet/wallet/txauthor => /repo/wallet/txauthor

replace github.com/btcsuite/btcwallet/wallet/txrules => /repo/wallet/txrules

replace github.com/btcsuite/btcwallet/wallet/txsizes => /repo/wallet/txsizes

replace github.com/btcsuite/btcwallet/walletdb => /repo/walletdb

replace github.com/btcsuite/btcwallet/wtxmgr => /repo/wtxmgr
