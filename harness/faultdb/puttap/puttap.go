// Package puttap is a walletdb.ReadWriteBucket decorator that records every mutation (Put / Delete / bucket
// creation / bucket deletion) made below a namespace bucket, with the bucket path from the namespace root.
// It is used by the addrmgr-derive engine (C04) to see exactly what the address manager hands to the database.
package puttap

import (
	"github.com/btcsuite/btcwallet/walletdb"
)

type Kind int

const (
	Put Kind = iota
	Delete
	CreateBucket
	DeleteBucket
)

type Write struct {
	Kind  Kind
	Path  []string // bucket names from the namespace root
	Key   []byte
	Value []byte
}

type Tap struct {
	Writes []Write
}

func (t *Tap) Reset() { t.Writes = nil }

type Bucket struct {
	inner walletdb.ReadWriteBucket
	path  []string
	tap   *Tap
}

// Wrap decorates the namespace bucket.
func Wrap(b walletdb.ReadWriteBucket, tap *Tap) *Bucket {
	return &Bucket{inner: b, tap: tap}
}

var _ walletdb.ReadWriteBucket = (*Bucket)(nil)

func cp(b []byte) []byte {
	if b == nil {
		return nil
	}
	return append([]byte{}, b...)
}

func (b *Bucket) sub(key []byte, in walletdb.ReadWriteBucket) *Bucket {
	p := append(append([]string{}, b.path...), string(key))
	return &Bucket{inner: in, path: p, tap: b.tap}
}

func (b *Bucket) NestedReadBucket(key []byte) walletdb.ReadBucket {
	r := b.inner.NestedReadBucket(key)
	if r == nil {
		return nil
	}
	return r
}

func (b *Bucket) ForEach(f func(k, v []byte) error) error { return b.inner.ForEach(f) }
func (b *Bucket) Get(key []byte) []byte                  { return b.inner.Get(key) }
func (b *Bucket) ReadCursor() walletdb.ReadCursor        { return b.inner.ReadCursor() }
func (b *Bucket) Sequence() uint64                       { return b.inner.Sequence() }

func (b *Bucket) NestedReadWriteBucket(key []byte) walletdb.ReadWriteBucket {
	r := b.inner.NestedReadWriteBucket(key)
	if r == nil {
		return nil
	}
	return b.sub(key, r)
}

func (b *Bucket) CreateBucket(key []byte) (walletdb.ReadWriteBucket, error) {
	r, err := b.inner.CreateBucket(key)
	if err != nil {
		return nil, err
	}
	b.tap.Writes = append(b.tap.Writes, Write{Kind: CreateBucket, Path: b.path, Key: cp(key)})
	return b.sub(key, r), nil
}

func (b *Bucket) CreateBucketIfNotExists(key []byte) (walletdb.ReadWriteBucket, error) {
	existed := b.inner.NestedReadBucket(key) != nil
	r, err := b.inner.CreateBucketIfNotExists(key)
	if err != nil {
		return nil, err
	}
	if !existed {
		b.tap.Writes = append(b.tap.Writes, Write{Kind: CreateBucket, Path: b.path, Key: cp(key)})
	}
	return b.sub(key, r), nil
}

func (b *Bucket) DeleteNestedBucket(key []byte) error {
	err := b.inner.DeleteNestedBucket(key)
	if err == nil {
		b.tap.Writes = append(b.tap.Writes, Write{Kind: DeleteBucket, Path: b.path, Key: cp(key)})
	}
	return err
}

func (b *Bucket) Put(key, value []byte) error {
	err := b.inner.Put(key, value)
	if err == nil {
		b.tap.Writes = append(b.tap.Writes, Write{Kind: Put, Path: b.path, Key: cp(key), Value: cp(value)})
	}
	return err
}

func (b *Bucket) Delete(key []byte) error {
	had := b.inner.Get(key) != nil
	err := b.inner.Delete(key)
	if err == nil && had {
		b.tap.Writes = append(b.tap.Writes, Write{Kind: Delete, Path: b.path, Key: cp(key)})
	}
	return err
}

// ReadWriteCursor is passed through (waddrmgr never writes through cursors; a cursor Delete would be untapped,
// which the engine detects because the final image scan and the model's row set would then disagree).
func (b *Bucket) ReadWriteCursor() walletdb.ReadWriteCursor { return b.inner.ReadWriteCursor() }
func (b *Bucket) Tx() walletdb.ReadWriteTx                  { return b.inner.Tx() }
func (b *Bucket) NextSequence() (uint64, error)             { return b.inner.NextSequence() }
func (b *Bucket) SetSequence(v uint64) error                { return b.inner.SetSequence(v) }
