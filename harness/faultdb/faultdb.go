// Package faultdb decorates a walletdb.DB: every mutating call made through a read-write transaction
// (Put, Delete, CreateBucket, CreateBucketIfNotExists, DeleteNestedBucket, SetSequence, NextSequence,
// CreateTopLevelBucket, DeleteTopLevelBucket, cursor Delete) is counted and recorded together with the chain
// of wallet call sites on the stack; the k-th one can be made to fail with ErrInjected *without* touching the
// underlying database.  OnCommit registrations are recorded too.  Used by the C10 engine (faultops).
package faultdb

import (
	"errors"
	"io"
	"regexp"
	"runtime"
	"strconv"
	"strings"

	"github.com/btcsuite/btcwallet/walletdb"
)

// ErrInjected is returned by the failing write.
var ErrInjected = errors.New("faultdb: injected write failure")

// Event is one recorded step of an operation.
type Event struct {
	Kind   string   // "w" mutating call, "c" OnCommit registration
	Prim   string   // Put, Delete, ...
	Frames []string // wallet call sites on the stack, innermost first: "<pkg>.<func>:<line>"
	Failed bool     // this write was made to fail
}

// Ctl controls and records one decorated database.
type Ctl struct {
	FailAt int // 1-based index of the mutating call to fail; 0 = none
	Count  int // mutating calls seen since Reset
	Fired  bool
	Events []Event
	Record bool // capture stacks (expensive) - needed for shape recording and for the failing write
	// Hook, if set, is called before every recorded step (write or OnCommit registration), in the goroutine of
	// the operation.
	Hook func(kind string)
	// FramePkgs lists the package path fragments whose frames are kept.
	FramePkgs []string
}

// Reset clears counters and the recording; arms the k-th write (0 = none).
func (c *Ctl) Reset(failAt int) {
	c.FailAt, c.Count, c.Fired, c.Events = failAt, 0, false, nil
}

var closureSuffix = regexp.MustCompile(`(\.func\d+|\.\d+|\.gowrap\d+|\.deferwrap\d+)+$`)

// NormalizeFunc turns a runtime function name into "<pkg>.<func>" with closure suffixes removed:
// "github.com/btcsuite/btcwallet/wtxmgr.(*Store).Rollback.func1" -> "wtxmgr.(*Store).Rollback".
func NormalizeFunc(fn string) string {
	if i := strings.LastIndex(fn, "/"); i >= 0 {
		fn = fn[i+1:]
	}
	fn = closureSuffix.ReplaceAllString(fn, "")
	// generic instantiation markers
	if i := strings.Index(fn, "[...]"); i >= 0 {
		fn = fn[:i] + fn[i+5:]
	}
	return fn
}

func (c *Ctl) frames() []string {
	pcs := make([]uintptr, 64)
	n := runtime.Callers(3, pcs)
	fr := runtime.CallersFrames(pcs[:n])
	var out []string
	for {
		f, more := fr.Next()
		keep := false
		for _, p := range c.FramePkgs {
			if strings.Contains(f.Function, p) {
				keep = true
			}
		}
		if keep {
			out = append(out, NormalizeFunc(f.Function)+":"+strconv.Itoa(f.Line))
		}
		if !more {
			break
		}
	}
	return out
}

// step is called by every mutating primitive; returns ErrInjected if this one must fail.
func (c *Ctl) step(prim string) error {
	if c.Hook != nil {
		c.Hook("w")
	}
	c.Count++
	fail := c.FailAt > 0 && c.Count == c.FailAt
	if c.Record || fail {
		ev := Event{Kind: "w", Prim: prim, Failed: fail}
		ev.Frames = c.frames()
		c.Events = append(c.Events, ev)
	}
	if fail {
		c.Fired = true
		return ErrInjected
	}
	return nil
}

// ---- DB

type DB struct {
	Inner walletdb.DB
	Ctl   *Ctl
}

// Wrap decorates db.
func Wrap(db walletdb.DB) *DB {
	return &DB{Inner: db, Ctl: &Ctl{FramePkgs: []string{"btcwallet/wtxmgr.", "btcwallet/waddrmgr."}}}
}

func (d *DB) BeginReadTx() (walletdb.ReadTx, error) { return d.Inner.BeginReadTx() }

func (d *DB) BeginReadWriteTx() (walletdb.ReadWriteTx, error) {
	tx, err := d.Inner.BeginReadWriteTx()
	if err != nil {
		return nil, err
	}
	return &rwTx{tx, d.Ctl}, nil
}

func (d *DB) Copy(w io.Writer) error { return d.Inner.Copy(w) }
func (d *DB) Close() error           { return d.Inner.Close() }
func (d *DB) PrintStats() string     { return d.Inner.PrintStats() }

func (d *DB) View(f func(tx walletdb.ReadTx) error, reset func()) error {
	return d.Inner.View(f, reset)
}

func (d *DB) Update(f func(tx walletdb.ReadWriteTx) error, reset func()) error {
	return d.Inner.Update(func(tx walletdb.ReadWriteTx) error {
		return f(&rwTx{tx, d.Ctl})
	}, reset)
}

// Batch makes *DB a walletdb.BatchDB when the inner database is one.
func (d *DB) Batch(f func(tx walletdb.ReadWriteTx) error) error {
	if b, ok := d.Inner.(walletdb.BatchDB); ok {
		return b.Batch(func(tx walletdb.ReadWriteTx) error { return f(&rwTx{tx, d.Ctl}) })
	}
	return d.Update(f, func() {})
}

// ---- Tx

type rwTx struct {
	inner walletdb.ReadWriteTx
	ctl   *Ctl
}

func (t *rwTx) ReadBucket(key []byte) walletdb.ReadBucket { return t.inner.ReadBucket(key) }
func (t *rwTx) ForEachBucket(f func(key []byte) error) error {
	return t.inner.ForEachBucket(f)
}
func (t *rwTx) Rollback() error { return t.inner.Rollback() }
func (t *rwTx) Commit() error   { return t.inner.Commit() }

func (t *rwTx) ReadWriteBucket(key []byte) walletdb.ReadWriteBucket {
	b := t.inner.ReadWriteBucket(key)
	if b == nil {
		return nil
	}
	return &rwBucket{b, t}
}

func (t *rwTx) CreateTopLevelBucket(key []byte) (walletdb.ReadWriteBucket, error) {
	if err := t.ctl.step("CreateTopLevelBucket"); err != nil {
		return nil, err
	}
	b, err := t.inner.CreateTopLevelBucket(key)
	if err != nil || b == nil {
		return nil, err
	}
	return &rwBucket{b, t}, nil
}

func (t *rwTx) DeleteTopLevelBucket(key []byte) error {
	if err := t.ctl.step("DeleteTopLevelBucket"); err != nil {
		return err
	}
	return t.inner.DeleteTopLevelBucket(key)
}

func (t *rwTx) OnCommit(f func()) {
	if t.ctl.Hook != nil {
		t.ctl.Hook("c")
	}
	if t.ctl.Record {
		t.ctl.Events = append(t.ctl.Events, Event{Kind: "c", Prim: "OnCommit", Frames: t.ctl.frames()})
	}
	t.inner.OnCommit(f)
}

// ---- Bucket

type rwBucket struct {
	inner walletdb.ReadWriteBucket
	tx    *rwTx
}

func (b *rwBucket) NestedReadBucket(key []byte) walletdb.ReadBucket {
	return b.inner.NestedReadBucket(key)
}
func (b *rwBucket) ForEach(f func(k, v []byte) error) error { return b.inner.ForEach(f) }
func (b *rwBucket) Get(key []byte) []byte                   { return b.inner.Get(key) }
func (b *rwBucket) ReadCursor() walletdb.ReadCursor         { return b.inner.ReadCursor() }
func (b *rwBucket) Sequence() uint64                        { return b.inner.Sequence() }
func (b *rwBucket) Tx() walletdb.ReadWriteTx                { return b.tx }

func (b *rwBucket) NestedReadWriteBucket(key []byte) walletdb.ReadWriteBucket {
	n := b.inner.NestedReadWriteBucket(key)
	if n == nil {
		return nil
	}
	return &rwBucket{n, b.tx}
}

func (b *rwBucket) CreateBucket(key []byte) (walletdb.ReadWriteBucket, error) {
	if err := b.tx.ctl.step("CreateBucket"); err != nil {
		return nil, err
	}
	n, err := b.inner.CreateBucket(key)
	if err != nil || n == nil {
		return nil, err
	}
	return &rwBucket{n, b.tx}, nil
}

func (b *rwBucket) CreateBucketIfNotExists(key []byte) (walletdb.ReadWriteBucket, error) {
	if err := b.tx.ctl.step("CreateBucketIfNotExists"); err != nil {
		return nil, err
	}
	n, err := b.inner.CreateBucketIfNotExists(key)
	if err != nil || n == nil {
		return nil, err
	}
	return &rwBucket{n, b.tx}, nil
}

func (b *rwBucket) DeleteNestedBucket(key []byte) error {
	if err := b.tx.ctl.step("DeleteNestedBucket"); err != nil {
		return err
	}
	return b.inner.DeleteNestedBucket(key)
}

func (b *rwBucket) Put(key, value []byte) error {
	if err := b.tx.ctl.step("Put"); err != nil {
		return err
	}
	return b.inner.Put(key, value)
}

func (b *rwBucket) Delete(key []byte) error {
	if err := b.tx.ctl.step("Delete"); err != nil {
		return err
	}
	return b.inner.Delete(key)
}

func (b *rwBucket) NextSequence() (uint64, error) {
	if err := b.tx.ctl.step("NextSequence"); err != nil {
		return 0, err
	}
	return b.inner.NextSequence()
}

func (b *rwBucket) SetSequence(v uint64) error {
	if err := b.tx.ctl.step("SetSequence"); err != nil {
		return err
	}
	return b.inner.SetSequence(v)
}

func (b *rwBucket) ReadWriteCursor() walletdb.ReadWriteCursor {
	return &rwCursor{b.inner.ReadWriteCursor(), b.tx.ctl}
}

// ---- Cursor

type rwCursor struct {
	inner walletdb.ReadWriteCursor
	ctl   *Ctl
}

func (c *rwCursor) First() (key, value []byte)           { return c.inner.First() }
func (c *rwCursor) Last() (key, value []byte)            { return c.inner.Last() }
func (c *rwCursor) Next() (key, value []byte)            { return c.inner.Next() }
func (c *rwCursor) Prev() (key, value []byte)            { return c.inner.Prev() }
func (c *rwCursor) Seek(seek []byte) (key, value []byte) { return c.inner.Seek(seek) }
func (c *rwCursor) Delete() error {
	if err := c.ctl.step("CursorDelete"); err != nil {
		return err
	}
	return c.inner.Delete()
}
