// Package hd is an INDEPENDENT derivation oracle used by the addrmgr-derive engine (C03/C04).
//
// It is written from the BIP32 / BIP173 / BIP350 / BIP341 texts on top of btcec point arithmetic, HMAC-SHA512,
// SHA256 and RIPEMD160 only.  It deliberately does not import hdkeychain, btcutil address types or txscript, so
// that "the wallet's address equals the oracle's address" compares two separately written derivations.
//
// The one non-BIP32 ingredient is btcsuite's legacy serialisation of a *derived* private parent in hardened
// derivation (hdkeychain.DeriveNonStandard): the parent scalar is written in minimal big-endian form directly after
// the 0x00 byte and the remainder of the 33 byte field is zero, i.e. 0x00 || min(k) || 0..0, instead of BIP32's
// 0x00 || ser256(k).  The two agree unless the derived parent key has leading zero bytes.  Master keys keep
// their full 32 bytes (they come straight out of the HMAC).
package hd

import (
	"bytes"
	"crypto/hmac"
	"crypto/sha256"
	"crypto/sha512"
	"encoding/binary"
	"errors"
	"math/big"

	"github.com/btcsuite/btcd/btcec/v2"
	"github.com/btcsuite/btcd/btcutil/base58"
	"github.com/btcsuite/btcd/btcutil/bech32"
	"golang.org/x/crypto/ripemd160" //nolint:staticcheck
)

const Hardened = 0x80000000

var ErrInvalidChild = errors.New("oracle: invalid child")
var ErrHardFromPub = errors.New("oracle: hardened from public")

var curveN = btcec.S256().N

// Key is an extended key.  For private keys D is the scalar; raw is the byte string hdkeychain would hold
// (32 bytes for a master key, minimal big-endian for derived keys) and is what the legacy rule serialises.
type Key struct {
	IsPriv   bool
	D        *big.Int // private scalar (nil for public keys)
	raw      []byte
	X, Y     *big.Int // public point
	Chain    []byte
	Depth    uint8
	ParentFP [4]byte
	ChildNum uint32
	// LegacyDiffers is set when this key was derived through a hardened step whose legacy serialisation differs
	// from BIP32's (so the test can report that the rule was actually exercised).
	LegacyDiffers bool
}

func Hash160(b []byte) []byte {
	s := sha256.Sum256(b)
	r := ripemd160.New()
	r.Write(s[:])
	return r.Sum(nil)
}

func pointMulG(k *big.Int) (*big.Int, *big.Int) {
	var s btcec.ModNScalar
	kb := make([]byte, 32)
	k.FillBytes(kb)
	s.SetByteSlice(kb)
	var j btcec.JacobianPoint
	btcec.ScalarBaseMultNonConst(&s, &j)
	j.ToAffine()
	x, y := new(big.Int), new(big.Int)
	xb, yb := j.X.Bytes(), j.Y.Bytes()
	x.SetBytes(xb[:])
	y.SetBytes(yb[:])
	return x, y
}

func pointAdd(x1, y1, x2, y2 *big.Int) (*big.Int, *big.Int, bool) {
	toJ := func(x, y *big.Int) btcec.JacobianPoint {
		var fx, fy btcec.FieldVal
		xb, yb := make([]byte, 32), make([]byte, 32)
		x.FillBytes(xb)
		y.FillBytes(yb)
		fx.SetByteSlice(xb)
		fy.SetByteSlice(yb)
		var j btcec.JacobianPoint
		j.X, j.Y = fx, fy
		j.Z.SetInt(1)
		return j
	}
	a, b := toJ(x1, y1), toJ(x2, y2)
	var r btcec.JacobianPoint
	btcec.AddNonConst(&a, &b, &r)
	if r.Z.IsZero() {
		return nil, nil, false
	}
	r.ToAffine()
	xb, yb := r.X.Bytes(), r.Y.Bytes()
	return new(big.Int).SetBytes(xb[:]), new(big.Int).SetBytes(yb[:]), true
}

// SerP is BIP32 serP: compressed SEC1.
func SerP(x, y *big.Int) []byte {
	out := make([]byte, 33)
	out[0] = 2 + byte(y.Bit(0))
	x.FillBytes(out[1:])
	return out
}

func SerUncompressed(x, y *big.Int) []byte {
	out := make([]byte, 65)
	out[0] = 4
	x.FillBytes(out[1:33])
	y.FillBytes(out[33:])
	return out
}

func (k *Key) PubBytes() []byte { return SerP(k.X, k.Y) }

// PrivBytes is ser256(k).
func (k *Key) PrivBytes() []byte {
	b := make([]byte, 32)
	k.D.FillBytes(b)
	return b
}

// Master implements BIP32 master key generation.
func Master(seed []byte) (*Key, error) {
	m := hmac.New(sha512.New, []byte("Bitcoin seed"))
	m.Write(seed)
	I := m.Sum(nil)
	d := new(big.Int).SetBytes(I[:32])
	if d.Sign() == 0 || d.Cmp(curveN) >= 0 {
		return nil, errors.New("oracle: unusable seed")
	}
	x, y := pointMulG(d)
	return &Key{IsPriv: true, D: d, raw: append([]byte{}, I[:32]...), X: x, Y: y, Chain: append([]byte{}, I[32:]...)}, nil
}

// Child implements CKDpriv / CKDpub.  legacy selects btcsuite's DeriveNonStandard serialisation rule.
func (k *Key) Child(i uint32, legacy bool) (*Key, error) {
	hard := i >= Hardened
	if hard && !k.IsPriv {
		return nil, ErrHardFromPub
	}
	data := make([]byte, 37)
	differs := false
	if hard {
		if legacy {
			copy(data[1:], k.raw) // 0x00 || raw || zero fill
			differs = len(k.raw) != 32
		} else {
			copy(data[1:], k.PrivBytes())
		}
	} else {
		copy(data, k.PubBytes())
	}
	binary.BigEndian.PutUint32(data[33:], i)
	m := hmac.New(sha512.New, k.Chain)
	m.Write(data)
	I := m.Sum(nil)
	il := new(big.Int).SetBytes(I[:32])
	if il.Cmp(curveN) >= 0 || il.Sign() == 0 {
		return nil, ErrInvalidChild
	}
	c := &Key{Chain: append([]byte{}, I[32:]...), Depth: k.Depth + 1, ChildNum: i, LegacyDiffers: k.LegacyDiffers || differs}
	copy(c.ParentFP[:], Hash160(k.PubBytes())[:4])
	if k.IsPriv {
		d := new(big.Int).Add(il, k.D)
		d.Mod(d, curveN)
		// BIP32: d == 0 is invalid.  (btcsuite's DeriveNonStandard does not test this; probability 2^-256.)
		if d.Sign() == 0 {
			return nil, ErrInvalidChild
		}
		c.IsPriv, c.D = true, d
		c.raw = d.Bytes() // minimal big-endian, as big.Int.Bytes() in hdkeychain
		c.X, c.Y = pointMulG(d)
	} else {
		gx, gy := pointMulG(il)
		x, y, ok := pointAdd(gx, gy, k.X, k.Y)
		if !ok {
			return nil, ErrInvalidChild
		}
		c.X, c.Y = x, y
	}
	return c, nil
}

func (k *Key) Neuter() *Key {
	c := *k
	c.IsPriv, c.D, c.raw = false, nil, nil
	return &c
}

// Path derives along a path.
func (k *Key) Path(legacy bool, idx ...uint32) (*Key, error) {
	cur := k
	for _, i := range idx {
		n, err := cur.Child(i, legacy)
		if err != nil {
			return nil, err
		}
		cur = n
	}
	return cur, nil
}

func checksum(b []byte) []byte {
	a := sha256.Sum256(b)
	c := sha256.Sum256(a[:])
	return c[:4]
}

// String is the BIP32 78-byte serialisation in base58check with the given 4 byte version.
func (k *Key) String(version [4]byte) string {
	var buf bytes.Buffer
	buf.Write(version[:])
	buf.WriteByte(k.Depth)
	buf.Write(k.ParentFP[:])
	var cn [4]byte
	binary.BigEndian.PutUint32(cn[:], k.ChildNum)
	buf.Write(cn[:])
	buf.Write(k.Chain)
	if k.IsPriv {
		buf.WriteByte(0)
		buf.Write(k.PrivBytes())
	} else {
		buf.Write(k.PubBytes())
	}
	b := buf.Bytes()
	return base58.Encode(append(b, checksum(b)...))
}

// ---- address encodings -------------------------------------------------------------------------------------

type Net struct {
	PKH, SH byte
	HRP     string
	WIF     byte
	HDPriv  [4]byte
	HDPub   [4]byte
}

func b58check(ver byte, payload []byte) string {
	b := append([]byte{ver}, payload...)
	return base58.Encode(append(b, checksum(b)...))
}

func segwit(hrp string, ver byte, prog []byte) string {
	conv, err := bech32.ConvertBits(prog, 8, 5, true)
	if err != nil {
		panic(err)
	}
	data := append([]byte{ver}, conv...)
	var s string
	if ver == 0 {
		s, err = bech32.Encode(hrp, data)
	} else {
		s, err = bech32.EncodeM(hrp, data)
	}
	if err != nil {
		panic(err)
	}
	return s
}

func TaggedHash(tag string, msgs ...[]byte) []byte {
	t := sha256.Sum256([]byte(tag))
	h := sha256.New()
	h.Write(t[:])
	h.Write(t[:])
	for _, m := range msgs {
		h.Write(m)
	}
	return h.Sum(nil)
}

var fieldP, _ = new(big.Int).SetString("FFFFFFFFFFFFFFFFFFFFFFFFFFFFFFFFFFFFFFFFFFFFFFFFFFFFFFFEFFFFFC2F", 16)

// TaprootOutputKey is BIP341 taproot_tweak_pubkey(P, merkle) x-only output key (merkle may be nil = key spend only, BIP86).
func TaprootOutputKey(x, y *big.Int, merkle []byte) []byte {
	// lift_x: take the point with even y
	ey := new(big.Int).Set(y)
	if ey.Bit(0) == 1 {
		ey.Sub(fieldP, ey)
	}
	xb := make([]byte, 32)
	x.FillBytes(xb)
	t := new(big.Int).SetBytes(TaggedHash("TapTweak", xb, merkle))
	if t.Cmp(curveN) >= 0 {
		panic("tweak out of range")
	}
	tx, ty := pointMulG(t)
	qx, _, ok := pointAdd(x, ey, tx, ty)
	if !ok {
		panic("taproot tweak infinity")
	}
	out := make([]byte, 32)
	qx.FillBytes(out)
	return out
}

// Address types (numbering of waddrmgr.AddressType)
const (
	PubKeyHash          = 0
	NestedWitnessPubKey = 3
	WitnessPubKey       = 4
	TaprootPubKey       = 6
)

// Address encodes pubkey (x,y) (compressed unless uncompressed is set) as the given type; returns the string and the
// "address id" (what waddrmgr calls ScriptAddress()).
func Address(n *Net, typ int, x, y *big.Int, uncompressed bool) (string, []byte) {
	ser := SerP(x, y)
	if uncompressed {
		ser = SerUncompressed(x, y)
	}
	h := Hash160(ser)
	switch typ {
	case PubKeyHash:
		return b58check(n.PKH, h), h
	case WitnessPubKey:
		return segwit(n.HRP, 0, h), h
	case NestedWitnessPubKey:
		script := append([]byte{0x00, 0x14}, h...)
		sh := Hash160(script)
		return b58check(n.SH, sh), sh
	case TaprootPubKey:
		q := TaprootOutputKey(x, y, nil)
		return segwit(n.HRP, 1, q), q
	}
	panic("unknown address type")
}

func P2SH(n *Net, script []byte) (string, []byte) {
	h := Hash160(script)
	return b58check(n.SH, h), h
}

func P2WSH(n *Net, script []byte) (string, []byte) {
	h := sha256.Sum256(script)
	return segwit(n.HRP, 0, h[:]), h[:]
}

// WIF encodes a private scalar.
func WIF(n *Net, d *big.Int, compressed bool) string {
	b := make([]byte, 32)
	d.FillBytes(b)
	if compressed {
		b = append(b, 1)
	}
	return b58check(n.WIF, b)
}

// PubOfPriv returns d*G.
func PubOfPriv(d *big.Int) (*big.Int, *big.Int) { return pointMulG(d) }
