// Package core is the shared skeleton of the correspondence harness: engines generate cases (lists of op
// lines), execute them on the real btcwallet code, and evaluate property oracles on the real outputs.
package core

import (
	"bufio"
	"encoding/json"
	"fmt"
	"math/rand"
	"os"
	"path/filepath"
	"sort"
	"strings"
)

// Case is one independent op sequence; a fresh Runner executes it.
type Case struct {
	Ops  []string
	Tags []string // generator-side classification (for distribution stats / non-triviality)
}

// Runner executes ops on the real implementation.
type Runner interface {
	// Exec returns the canonical reply line and, if a property oracle evaluated on the REAL output fails,
	// a non-empty violation description (independent of the Lean model).
	Exec(op string) (reply string, violation string)
	Close()
}

type Engine interface {
	Name() string
	// Props lists the property ids this engine's oracles speak about.
	Generate(rng *rand.Rand, tier string) []Case
	NewRunner() Runner
}

var registry = map[string]Engine{}

func Register(e Engine) { registry[e.Name()] = e }
func Get(name string) Engine { return registry[name] }
func Names() []string {
	var n []string
	for k := range registry {
		n = append(n, k)
	}
	sort.Strings(n)
	return n
}

type Violation struct {
	Case  int    `json:"case"`
	Op    int    `json:"op"`
	Line  string `json:"line"`
	Reply string `json:"reply"`
	What  string `json:"what"`
}

type Stats struct {
	Engine     string         `json:"engine"`
	Cases      int            `json:"cases"`
	Ops        int            `json:"ops"`
	Tags       map[string]int `json:"tags"`
	OpKinds    map[string]int `json:"op_kinds"`
	ReplyKinds map[string]int `json:"reply_kinds"`
	Violations []Violation    `json:"violations"`
	Samples    [][]string     `json:"samples"`
}

// SafeExec runs one op recovering panics.
func SafeExec(r Runner, op string) (reply, viol string) {
	defer func() {
		if p := recover(); p != nil {
			reply = "panic"
			viol = ""
			_ = p
			if os.Getenv("VX_DEBUG") != "" {
				fmt.Fprintf(os.Stderr, "panic on %q: %v\n", op, p)
			}
		}
	}()
	return r.Exec(op)
}

// RunCases executes all cases, writes ops.txt / go.out / stats.json into dir.
// Each case is preceded by a "reset" op line in ops.txt so the model driver resets too; runners get the line too.
func RunCases(e Engine, cases []Case, dir string) (*Stats, error) {
	if err := os.MkdirAll(dir, 0o755); err != nil {
		return nil, err
	}
	opsF, err := os.Create(filepath.Join(dir, "ops.txt"))
	if err != nil {
		return nil, err
	}
	defer opsF.Close()
	outF, err := os.Create(filepath.Join(dir, "go.out"))
	if err != nil {
		return nil, err
	}
	defer outF.Close()
	ow, rw := bufio.NewWriter(opsF), bufio.NewWriter(outF)
	defer ow.Flush()
	defer rw.Flush()

	st := &Stats{Engine: e.Name(), Tags: map[string]int{}, OpKinds: map[string]int{}, ReplyKinds: map[string]int{}, Violations: []Violation{}, Samples: [][]string{}}
	for ci, c := range cases {
		st.Cases++
		for _, t := range c.Tags {
			st.Tags[t]++
		}
		r := e.NewRunner()
		fmt.Fprintf(ow, "# case %d\n", ci)
		fmt.Fprintf(rw, "# case %d\n", ci)
		for oi, op := range c.Ops {
			st.Ops++
			// the op line is on disk BEFORE the real code runs it: if the process dies (a panic in a goroutine of
			// the code under test cannot be recovered), the tail of ops.txt is the crashing input
			fmt.Fprintln(ow, op)
			ow.Flush()
			reply, viol := SafeExec(r, op)
			fmt.Fprintln(rw, reply)
			st.OpKinds[firstWord(op)]++
			st.ReplyKinds[replyKind(reply)]++
			if viol != "" {
				st.Violations = append(st.Violations, Violation{ci, oi, op, reply, viol})
			}
		}
		r.Close()
		if len(st.Samples) < 3 {
			s := c.Ops
			if len(s) > 12 {
				s = append(append([]string{}, s[:12]...), fmt.Sprintf("... (%d ops)", len(c.Ops)))
			}
			st.Samples = append(st.Samples, s)
		}
	}
	ow.Flush()
	rw.Flush()
	b, _ := json.MarshalIndent(st, "", " ")
	if err := os.WriteFile(filepath.Join(dir, "stats.json"), b, 0o644); err != nil {
		return nil, err
	}
	return st, nil
}

// ReadCases parses an ops file ("# case N" separators; other '#' lines ignored).
func ReadCases(path string) ([]Case, error) {
	f, err := os.Open(path)
	if err != nil {
		return nil, err
	}
	defer f.Close()
	var cases []Case
	var cur *Case
	sc := bufio.NewScanner(f)
	sc.Buffer(make([]byte, 1<<20), 1<<28)
	for sc.Scan() {
		l := strings.TrimRight(sc.Text(), "\r\n ")
		if strings.HasPrefix(l, "# case") {
			cases = append(cases, Case{})
			cur = &cases[len(cases)-1]
			continue
		}
		if l == "" || strings.HasPrefix(l, "#") {
			continue
		}
		if cur == nil {
			cases = append(cases, Case{})
			cur = &cases[len(cases)-1]
		}
		cur.Ops = append(cur.Ops, l)
	}
	return cases, sc.Err()
}

func firstWord(s string) string {
	if i := strings.IndexByte(s, ' '); i >= 0 {
		return s[:i]
	}
	return s
}

func replyKind(s string) string {
	w := firstWord(s)
	if len(w) > 40 {
		w = w[:40]
	}
	return w
}

// KV parses key=value tokens.
func KV(op string) (string, map[string]string) {
	f := strings.Fields(op)
	m := map[string]string{}
	if len(f) == 0 {
		return "", m
	}
	for _, t := range f[1:] {
		if i := strings.IndexByte(t, '='); i >= 0 {
			m[t[:i]] = t[i+1:]
		}
	}
	return f[0], m
}

func CSV(s string) []string {
	if s == "" {
		return nil
	}
	return strings.Split(s, ",")
}
