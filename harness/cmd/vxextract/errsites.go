package main

// Extractor "errsites" (C10): for every call in wtxmgr / waddrmgr through which control can reach a mutating
// walletdb primitive, classify how the returned error is handled.  Output: lean/BtcwVerif/Gen/ErrSitesGen.lean.
//
// A *site* is a call expression inside a declared function (function literals belong to the declaration that
// contains them) which is
//   prim     a call of a mutating method of a walletdb interface (Put, Delete, CreateBucket, ...),
//   helper   a call of a function/method of the same package that (transitively) contains a site,
//   callback a call that receives a function literal / function value containing sites (ForEach, forEachX, ...),
//   dyncall  a call through a function-typed variable, parameter or field that returns an error.
// Handling of the error result:
//   propagated  returned (possibly wrapped) on the err != nil path, or the call is the operand of `return`,
//   ignored     dropped (`_ =`, expression statement, defer/go, never checked),
//   loggedOnly  only logged on the err != nil path,
//   converted   the err != nil path returns a nil error / the function has no error result,
//   unknown     a shape this extractor does not understand (never silently accepted: allPropagated = false).

import (
	"bytes"
	"fmt"
	"go/ast"
	"go/build"
	"go/importer"
	"go/parser"
	"go/printer"
	"go/token"
	"go/types"
	"os"
	"path/filepath"
	"sort"
	"strings"
)

func init() { extractors["errsites"] = extractErrSites }

var mutatingPrims = map[string]bool{
	"Put": true, "Delete": true, "CreateBucket": true, "CreateBucketIfNotExists": true,
	"DeleteNestedBucket": true, "SetSequence": true, "NextSequence": true,
	"CreateTopLevelBucket": true, "DeleteTopLevelBucket": true,
}

type esSite struct {
	pkg, fn        string
	ord            int
	line, endLine  int
	callee, kind   string
	handling, note string
}

type esMem struct {
	pkg, fn  string
	line     int
	deferred bool
	lhs      string
}

type esPkg struct {
	name  string
	fset  *token.FileSet
	files []*ast.File
	info  *types.Info
	decls map[*types.Func]*ast.FuncDecl
	// writer[f] : f (transitively) contains a mutating primitive call
	writer map[*types.Func]bool
}

func esLoad(repo, sub string) (*esPkg, error) {
	dir := filepath.Join(repo, sub)
	if err := os.Chdir(dir); err != nil { // go/build resolves module imports relative to the cwd
		return nil, err
	}
	fset := token.NewFileSet()
	ctxt := build.Default
	ctxt.BuildTags = append([]string{"verif"}, ctxt.BuildTags...)
	ents, err := os.ReadDir(dir)
	if err != nil {
		return nil, err
	}
	var files []*ast.File
	for _, e := range ents {
		n := e.Name()
		if e.IsDir() || !strings.HasSuffix(n, ".go") || strings.HasSuffix(n, "_test.go") {
			continue
		}
		ok, err := ctxt.MatchFile(dir, n)
		if err != nil {
			return nil, err
		}
		if !ok {
			continue
		}
		f, err := parser.ParseFile(fset, filepath.Join(dir, n), nil, parser.ParseComments)
		if err != nil {
			return nil, err
		}
		files = append(files, f)
	}
	info := &types.Info{
		Types:      map[ast.Expr]types.TypeAndValue{},
		Uses:       map[*ast.Ident]types.Object{},
		Defs:       map[*ast.Ident]types.Object{},
		Selections: map[*ast.SelectorExpr]*types.Selection{},
	}
	var terrs []string
	conf := types.Config{
		Importer: importer.ForCompiler(fset, "source", nil),
		Error:    func(err error) { terrs = append(terrs, err.Error()) },
	}
	_, _ = conf.Check(sub, fset, files, info)
	if len(terrs) > 0 {
		return nil, fmt.Errorf("type-check of %s failed (%d errors), first: %s", sub, len(terrs), terrs[0])
	}
	p := &esPkg{name: sub, fset: fset, files: files, info: info, decls: map[*types.Func]*ast.FuncDecl{}, writer: map[*types.Func]bool{}}
	for _, f := range files {
		for _, d := range f.Decls {
			if fd, ok := d.(*ast.FuncDecl); ok && fd.Body != nil {
				if obj, ok := info.Defs[fd.Name].(*types.Func); ok {
					p.decls[obj] = fd
				}
			}
		}
	}
	return p, nil
}

func (p *esPkg) isWalletdbPrim(c *ast.CallExpr) (string, bool) {
	sel, ok := c.Fun.(*ast.SelectorExpr)
	if !ok {
		return "", false
	}
	s := p.info.Selections[sel]
	if s == nil || s.Kind() != types.MethodVal {
		return "", false
	}
	f, ok := s.Obj().(*types.Func)
	if !ok || f.Pkg() == nil {
		return "", false
	}
	if !strings.HasSuffix(f.Pkg().Path(), "btcwallet/walletdb") {
		return "", false
	}
	if !mutatingPrims[f.Name()] {
		return "", false
	}
	recv := "?"
	if named, ok := s.Recv().(*types.Named); ok {
		recv = named.Obj().Name()
	}
	return "walletdb." + recv + "." + f.Name(), true
}

// staticCallee returns the declared function of this package that the call invokes, if any.
func (p *esPkg) staticCallee(c *ast.CallExpr) *types.Func {
	var id *ast.Ident
	switch f := c.Fun.(type) {
	case *ast.Ident:
		id = f
	case *ast.SelectorExpr:
		id = f.Sel
	default:
		return nil
	}
	if fn, ok := p.info.Uses[id].(*types.Func); ok {
		if _, ok := p.decls[fn]; ok {
			return fn
		}
	}
	return nil
}

func (p *esPkg) computeWriters() {
	for changed := true; changed; {
		changed = false
		for fn, fd := range p.decls {
			if p.writer[fn] {
				continue
			}
			w := false
			ast.Inspect(fd.Body, func(n ast.Node) bool {
				if w {
					return false
				}
				switch x := n.(type) {
				case *ast.CallExpr:
					if _, ok := p.isWalletdbPrim(x); ok {
						w = true
					}
				case *ast.Ident:
					// call of, or reference to (callback), a writer of this package
					if f, ok := p.info.Uses[x].(*types.Func); ok && p.writer[f] {
						w = true
					}
				}
				return !w
			})
			if w {
				p.writer[fn] = true
				changed = true
			}
		}
	}
}

// containsWrite: the node (a function literal body, typically) contains a primitive call or a reference to a writer.
func (p *esPkg) containsWrite(n ast.Node) bool {
	w := false
	ast.Inspect(n, func(n ast.Node) bool {
		if w {
			return false
		}
		switch x := n.(type) {
		case *ast.CallExpr:
			if _, ok := p.isWalletdbPrim(x); ok {
				w = true
			}
		case *ast.Ident:
			if f, ok := p.info.Uses[x].(*types.Func); ok && p.writer[f] {
				w = true
			}
		}
		return !w
	})
	return w
}

func isErrorType(t types.Type) bool {
	return t != nil && types.Identical(t, types.Universe.Lookup("error").Type())
}

// errIndex returns the index of the error result of the call and the number of results (-1 if none).
func (p *esPkg) errIndex(c *ast.CallExpr) (int, int) {
	tv, ok := p.info.Types[c]
	if !ok {
		return -1, 0
	}
	switch t := tv.Type.(type) {
	case *types.Tuple:
		for i := t.Len() - 1; i >= 0; i-- {
			if isErrorType(t.At(i).Type()) {
				return i, t.Len()
			}
		}
		return -1, t.Len()
	default:
		if isErrorType(tv.Type) {
			return 0, 1
		}
		if tv.IsVoid() {
			return -1, 0
		}
		return -1, 1
	}
}

func (p *esPkg) funcName(fd *ast.FuncDecl) string {
	if fd.Recv == nil || len(fd.Recv.List) == 0 {
		return p.name + "." + fd.Name.Name
	}
	t := fd.Recv.List[0].Type
	star := false
	if s, ok := t.(*ast.StarExpr); ok {
		star = true
		t = s.X
	}
	var tn string
	switch x := t.(type) {
	case *ast.Ident:
		tn = x.Name
	case *ast.IndexExpr:
		if id, ok := x.X.(*ast.Ident); ok {
			tn = id.Name
		}
	}
	if star {
		return p.name + ".(*" + tn + ")." + fd.Name.Name
	}
	return p.name + "." + tn + "." + fd.Name.Name
}

func (p *esPkg) src(n ast.Node) string {
	var b bytes.Buffer
	_ = printer.Fprint(&b, p.fset, n)
	s := strings.Join(strings.Fields(b.String()), " ")
	if len(s) > 70 {
		s = s[:70] + "…"
	}
	return s
}

// ---- classification

// enclosing function signature info for a node stack: the innermost FuncLit or the FuncDecl.
type esFn struct {
	results *ast.FieldList
	isLit   bool
}

func (p *esPkg) enclosingFn(stack []ast.Node) esFn {
	for i := len(stack) - 1; i >= 0; i-- {
		switch x := stack[i].(type) {
		case *ast.FuncLit:
			return esFn{x.Type.Results, true}
		case *ast.FuncDecl:
			return esFn{x.Type.Results, false}
		}
	}
	return esFn{}
}

// errResultIndex: index of the (last) error result among the flattened results of the enclosing function.
func (p *esPkg) errResultIndex(fl *ast.FieldList) (idx, n int, named *types.Var) {
	idx = -1
	if fl == nil {
		return
	}
	for _, f := range fl.List {
		k := len(f.Names)
		if k == 0 {
			k = 1
		}
		for j := 0; j < k; j++ {
			if isErrorType(p.info.Types[f.Type].Type) {
				idx = n
				named = nil
				if len(f.Names) > 0 {
					if v, ok := p.info.Defs[f.Names[j]].(*types.Var); ok {
						named = v
					}
				}
			}
			n++
		}
	}
	return
}

func isNilIdent(e ast.Expr) bool {
	id, ok := e.(*ast.Ident)
	return ok && id.Name == "nil"
}

// returnPropagates: does this return statement return a non-nil error (given the enclosing function)?
// res: "yes", "nil" (returns a nil error), "noerr" (function has no error result), "bare-named", "bare".
func (p *esPkg) returnKind(r *ast.ReturnStmt, fn esFn, errVar types.Object) string {
	idx, n, named := p.errResultIndex(fn.results)
	if idx < 0 {
		return "noerr"
	}
	if len(r.Results) == 0 {
		if named != nil && errVar != nil && named == errVar {
			return "yes"
		}
		return "bare"
	}
	if len(r.Results) == 1 && n > 1 {
		// return f(...) forwarding a tuple
		return "yes"
	}
	if len(r.Results) != n {
		return "bare"
	}
	if isNilIdent(r.Results[idx]) {
		return "nil"
	}
	return "yes"
}

// stmtList returns the statement list that directly contains s, given its parent node.
func stmtListOf(parent ast.Node) []ast.Stmt {
	switch x := parent.(type) {
	case *ast.BlockStmt:
		return x.List
	case *ast.CaseClause:
		return x.Body
	case *ast.CommClause:
		return x.Body
	}
	return nil
}

// successor finds the statement executed after stmt (index si in stack) when it completes normally.
// Returns nil, reason when there is none we understand.
func (p *esPkg) successor(stack []ast.Node, si int) (ast.Stmt, []ast.Node, string) {
	for si > 0 {
		s := stack[si]
		parent := stack[si-1]
		list := stmtListOf(parent)
		if list != nil {
			for i, t := range list {
				if t == s {
					if i+1 < len(list) {
						return list[i+1], stack[:si], ""
					}
					break
				}
			}
			// last statement of the list: continue after the construct that owns the list
			switch parent.(type) {
			case *ast.BlockStmt:
				// whose block is it?
				if si-2 < 0 {
					return nil, nil, "end"
				}
				switch g := stack[si-2].(type) {
				case *ast.IfStmt:
					// body or else-block of an if: continue after the (outermost) if
					j := si - 2
					for j-1 >= 0 {
						if up, ok := stack[j-1].(*ast.IfStmt); ok && up.Else == stack[j] {
							j--
							continue
						}
						break
					}
					_ = g
					si = j
					continue
				case *ast.FuncDecl, *ast.FuncLit:
					return nil, nil, "end"
				case *ast.BlockStmt, *ast.CaseClause:
					si = si - 1
					continue
				case *ast.SwitchStmt, *ast.TypeSwitchStmt:
					return nil, nil, "switch-body"
				default:
					return nil, nil, "end-of-loop-or-other"
				}
			case *ast.CaseClause:
				// body of a case: continue after the switch statement (stack: Switch, BlockStmt, CaseClause, s)
				if si-3 >= 0 {
					switch stack[si-3].(type) {
					case *ast.SwitchStmt, *ast.TypeSwitchStmt:
						si = si - 3
						continue
					}
				}
				return nil, nil, "case"
			default:
				return nil, nil, "other-list"
			}
		}
		return nil, nil, "not-in-list"
	}
	return nil, nil, "top"
}

func (p *esPkg) mentions(n ast.Node, obj types.Object) bool {
	found := false
	ast.Inspect(n, func(n ast.Node) bool {
		if id, ok := n.(*ast.Ident); ok {
			if p.info.Uses[id] == obj || p.info.Defs[id] == obj {
				found = true
			}
		}
		return !found
	})
	return found
}

func (p *esPkg) isErrNeNil(cond ast.Expr, errVar types.Object) bool {
	b, ok := cond.(*ast.BinaryExpr)
	if !ok {
		return false
	}
	// `err != nil || other`: the body runs whenever err != nil
	if b.Op == token.LOR && p.isErrNeNil(b.X, errVar) {
		return true
	}
	// `err != nil && err != pkg.ErrSentinel`: every error but one benign sentinel takes the body
	if b.Op == token.LAND && p.isErrNeNil(b.X, errVar) {
		if c, ok := b.Y.(*ast.BinaryExpr); ok && c.Op == token.NEQ {
			if id, ok := c.X.(*ast.Ident); ok && p.info.Uses[id] == errVar && p.isSentinel(c.Y) {
				return true
			}
		}
		return false
	}
	if b.Op != token.NEQ {
		return false
	}
	id, ok := b.X.(*ast.Ident)
	if !ok || !isNilIdent(b.Y) {
		return false
	}
	return p.info.Uses[id] == errVar
}

// isSentinel: a package-level error variable such as ErrDuplicateTx or walletdb.ErrBucketNotFound.
func (p *esPkg) isSentinel(e ast.Expr) bool {
	var id *ast.Ident
	switch x := e.(type) {
	case *ast.Ident:
		id = x
	case *ast.SelectorExpr:
		id = x.Sel
	default:
		return false
	}
	v, ok := p.info.Uses[id].(*types.Var)
	return ok && v.Parent() == v.Pkg().Scope() && strings.HasPrefix(v.Name(), "Err")
}

// skippableIf: an if-statement (no else) whose body only runs when there is no error or when the error is a
// specific sentinel: `err == ErrX`, `err == nil && ...`.  The injected fault never takes the body.
func (p *esPkg) skippableIf(t *ast.IfStmt, errVar types.Object) bool {
	if t.Else != nil {
		return false
	}
	b, ok := t.Cond.(*ast.BinaryExpr)
	if !ok {
		return false
	}
	isErrEq := func(e ast.Expr, wantNil bool) bool {
		c, ok := e.(*ast.BinaryExpr)
		if !ok || c.Op != token.EQL {
			return false
		}
		id, ok := c.X.(*ast.Ident)
		if !ok || p.info.Uses[id] != errVar {
			return false
		}
		if wantNil {
			return isNilIdent(c.Y)
		}
		return p.isSentinel(c.Y)
	}
	if isErrEq(b, false) {
		return true
	}
	if b.Op == token.LAND {
		// leftmost conjunct must be err == nil
		l := ast.Expr(b)
		for {
			bb, ok := l.(*ast.BinaryExpr)
			if ok && bb.Op == token.LAND {
				l = bb.X
				continue
			}
			break
		}
		return isErrEq(l, true)
	}
	return false
}

func isLogCall(n ast.Node) bool {
	found := false
	ast.Inspect(n, func(n ast.Node) bool {
		if c, ok := n.(*ast.CallExpr); ok {
			if s, ok := c.Fun.(*ast.SelectorExpr); ok {
				if id, ok := s.X.(*ast.Ident); ok && (id.Name == "log" || id.Name == "fmt" && strings.HasPrefix(s.Sel.Name, "Print")) {
					found = true
				}
			}
		}
		return !found
	})
	return found
}

// classifyErrBody: the body executed when errVar != nil.
func (p *esPkg) classifyErrBody(body *ast.BlockStmt, fn esFn, errVar types.Object) (string, string) {
	if len(body.List) == 0 {
		return "ignored", "empty err != nil body"
	}
	allYes, anyNil, anyNoErr, anyOdd := true, false, false, false
	nret := 0
	ast.Inspect(body, func(n ast.Node) bool {
		switch x := n.(type) {
		case *ast.FuncLit:
			return false
		case *ast.ReturnStmt:
			nret++
			switch p.returnKind(x, fn, errVar) {
			case "yes":
			case "nil":
				anyNil, allYes = true, false
			case "noerr":
				anyNoErr, allYes = true, false
			default:
				anyOdd, allYes = true, false
			}
		case *ast.BranchStmt:
			anyOdd = true
		}
		return true
	})
	last := body.List[len(body.List)-1]
	terminates := false
	switch x := last.(type) {
	case *ast.ReturnStmt:
		terminates = true
	case *ast.ExprStmt:
		if c, ok := x.X.(*ast.CallExpr); ok {
			if id, ok := c.Fun.(*ast.Ident); ok && id.Name == "panic" {
				terminates = true
			}
		}
	}
	switch {
	case anyOdd:
		return "unknown", "break/continue/goto or odd return in err != nil body"
	case terminates && allYes && nret > 0:
		return "propagated", ""
	case terminates && nret == 0:
		return "converted", "panics on error"
	case anyNoErr:
		return "converted", "enclosing function has no error result"
	case anyNil:
		return "converted", "err != nil path returns a nil error"
	case !terminates && isLogCall(body):
		return "loggedOnly", ""
	case !terminates:
		return "ignored", "err != nil body falls through"
	}
	return "unknown", "err != nil body not understood"
}

// classifyAfterAssign: the error was stored in errVar by statement stack[si]; look at what follows.
func (p *esPkg) classifyAfterAssign(stack []ast.Node, si int, errVar types.Object) (string, string) {
	fn := p.enclosingFn(stack[:si+1])
	curStack, curSi := stack, si
	for hops := 0; hops < 4; hops++ {
		next, nstack, why := p.successor(curStack, curSi)
		if next == nil {
			if why == "end" {
				_, _, named := p.errResultIndex(fn.results)
				if named != nil && named == errVar {
					return "propagated", "named result, falls off the end"
				}
				return "ignored", "error variable never checked (end of function)"
			}
			return "unknown", "no successor statement: " + why
		}
		switch t := next.(type) {
		case *ast.IfStmt:
			if t.Init == nil && p.isErrNeNil(t.Cond, errVar) {
				return p.classifyErrBody(t.Body, fn, errVar)
			}
			if t.Init == nil && p.skippableIf(t, errVar) {
				curStack = append(append([]ast.Node{}, nstack...), next)
				curSi = len(curStack) - 1
				continue
			}
			if !p.mentions(t, errVar) {
				// `x, err := f()` in an inner scope followed by `err = write()`; the check after the block
				// reads the OUTER variable of the same name: the write's error is never looked at
				if b, ok := t.Cond.(*ast.BinaryExpr); ok && b.Op == token.NEQ && isNilIdent(b.Y) {
					if id, ok := b.X.(*ast.Ident); ok && id.Name == errVar.Name() && p.info.Uses[id] != errVar {
						return "ignored", "shadowed error variable: the following check reads an outer `" + id.Name + "`, not the one assigned here"
					}
				}
				return "unknown", "unrelated if-statement between the call and the error check"
			}
			return "unknown", "if-statement on the error with an unsupported condition: " + p.src(t.Cond)
		case *ast.ReturnStmt:
			idx, n, _ := p.errResultIndex(fn.results)
			if idx < 0 {
				return "converted", "enclosing function has no error result"
			}
			if len(t.Results) == n && p.mentions(t.Results[idx], errVar) {
				return "propagated", ""
			}
			if len(t.Results) == 0 {
				_, _, named := p.errResultIndex(fn.results)
				if named != nil && named == errVar {
					return "propagated", ""
				}
			}
			return "ignored", "return does not carry the error variable"
		default:
			if p.mentions(next, errVar) {
				return "unknown", "error variable used by an unsupported statement: " + p.src(next)
			}
			return "unknown", "statement between the call and the error check: " + p.src(next)
		}
		_ = nstack
	}
	return "unknown", "too many hops"
}

// classify a site call given the node stack ending at the call.
func (p *esPkg) classify(stack []ast.Node) (string, string) {
	c := stack[len(stack)-1].(*ast.CallExpr)
	ei, nres := p.errIndex(c)
	if ei < 0 {
		return "propagated", "callee returns no error (its own sites are classified inside it)"
	}
	// climb through parentheses and error-wrapping calls: wrap(c)
	i := len(stack) - 1
	cur := ast.Expr(c)
	curErrIdx, curN := ei, nres
	for i > 0 {
		switch par := stack[i-1].(type) {
		case *ast.ParenExpr:
			cur = par
			i--
			continue
		case *ast.CallExpr:
			isArg := false
			for _, a := range par.Args {
				if a == cur {
					isArg = true
				}
			}
			pei, pn := p.errIndex(par)
			if isArg && curN == 1 && pei >= 0 {
				cur, curErrIdx, curN = par, pei, pn
				i--
				continue
			}
			return "unknown", "call result passed to a call that returns no error: " + p.src(par)
		}
		break
	}
	if i == 0 {
		return "unknown", "no parent"
	}
	fn := p.enclosingFn(stack[:i])
	switch par := stack[i-1].(type) {
	case *ast.ReturnStmt:
		idx, n, _ := p.errResultIndex(fn.results)
		if idx < 0 {
			return "converted", "enclosing function has no error result"
		}
		if len(par.Results) == 1 && curN == n {
			return "propagated", ""
		}
		if len(par.Results) == n && par.Results[idx] == cur && curN == 1 {
			return "propagated", ""
		}
		return "unknown", "call in a return statement at a non-error position"
	case *ast.ExprStmt:
		return "ignored", "result dropped (expression statement)"
	case *ast.DeferStmt:
		return "ignored", "deferred call, result dropped"
	case *ast.GoStmt:
		return "ignored", "go statement, result dropped"
	case *ast.AssignStmt:
		if len(par.Rhs) != 1 || par.Rhs[0] != cur {
			return "unknown", "multi-value assignment"
		}
		if len(par.Lhs) != curN {
			return "unknown", "assignment arity"
		}
		lhs, ok := par.Lhs[curErrIdx].(*ast.Ident)
		if !ok {
			return "unknown", "error assigned to a non-identifier: " + p.src(par.Lhs[curErrIdx])
		}
		if lhs.Name == "_" {
			return "ignored", "error assigned to _"
		}
		var errVar types.Object = p.info.Defs[lhs]
		if errVar == nil {
			errVar = p.info.Uses[lhs]
		}
		if errVar == nil {
			return "unknown", "unresolved error variable"
		}
		// `if err := c; err != nil { ... }`
		if i-2 >= 0 {
			if ifs, ok := stack[i-2].(*ast.IfStmt); ok && ifs.Init == par {
				if p.isErrNeNil(ifs.Cond, errVar) {
					return p.classifyErrBody(ifs.Body, p.enclosingFn(stack[:i-1]), errVar)
				}
				if p.skippableIf(ifs, errVar) {
					return p.classifyAfterAssign(stack[:i-1], i-2, errVar)
				}
				return "unknown", "if-init with an unsupported condition: " + p.src(ifs.Cond)
			}
		}
		return p.classifyAfterAssign(stack[:i], i-1, errVar)
	case *ast.ValueSpec:
		return "unknown", "var declaration"
	}
	return "unknown", fmt.Sprintf("unsupported context %T", stack[i-1])
}

// ---- walking

func (p *esPkg) sitesAndMem() ([]esSite, []esMem, map[string][]string) {
	var sites []esSite
	var mems []esMem
	calls := map[string][]string{} // static call graph between declared functions (names)
	var fds []*ast.FuncDecl
	for _, fd := range p.decls {
		fds = append(fds, fd)
	}
	// declared functions that receive a (possibly writing) function value from somewhere in the package:
	// only in those is a call through a function-typed parameter a potential path to a write.
	cbTargets := map[*types.Func]bool{}
	for _, fd := range p.decls {
		ast.Inspect(fd.Body, func(n ast.Node) bool {
			x, ok := n.(*ast.CallExpr)
			if !ok {
				return true
			}
			callee := p.staticCallee(x)
			if callee == nil {
				return true
			}
			for _, a := range x.Args {
				tv, ok := p.info.Types[a]
				if !ok || tv.Type == nil {
					continue
				}
				if _, isFn := tv.Type.Underlying().(*types.Signature); !isFn {
					continue
				}
				switch av := a.(type) {
				case *ast.FuncLit:
					if p.containsWrite(av.Body) {
						cbTargets[callee] = true
					}
				case *ast.Ident:
					if f, ok := p.info.Uses[av].(*types.Func); ok {
						if p.writer[f] {
							cbTargets[callee] = true
						}
					} else {
						cbTargets[callee] = true // function-typed variable: may be a writer
					}
				default:
					cbTargets[callee] = true
				}
			}
			return true
		})
	}
	sort.Slice(fds, func(i, j int) bool { return fds[i].Pos() < fds[j].Pos() })
	for _, fd := range fds {
		fname := p.funcName(fd)
		ord := 0
		var recvObj types.Object
		if fd.Recv != nil && len(fd.Recv.List) > 0 && len(fd.Recv.List[0].Names) > 0 {
			recvObj = p.info.Defs[fd.Recv.List[0].Names[0]]
		}
		// function literals registered with OnCommit (directly or through a local variable)
		deferredLits := map[*ast.FuncLit]bool{}
		litOfVar := map[types.Object]*ast.FuncLit{}
		ast.Inspect(fd.Body, func(n ast.Node) bool {
			if as, ok := n.(*ast.AssignStmt); ok && len(as.Lhs) == 1 && len(as.Rhs) == 1 {
				if fl, ok := as.Rhs[0].(*ast.FuncLit); ok {
					if id, ok := as.Lhs[0].(*ast.Ident); ok {
						if o := p.info.Defs[id]; o != nil {
							litOfVar[o] = fl
						} else if o := p.info.Uses[id]; o != nil {
							litOfVar[o] = fl
						}
					}
				}
			}
			return true
		})
		ast.Inspect(fd.Body, func(n ast.Node) bool {
			if c, ok := n.(*ast.CallExpr); ok {
				if s, ok := c.Fun.(*ast.SelectorExpr); ok && s.Sel.Name == "OnCommit" && len(c.Args) == 1 {
					switch a := c.Args[0].(type) {
					case *ast.FuncLit:
						deferredLits[a] = true
					case *ast.Ident:
						if fl := litOfVar[p.info.Uses[a]]; fl != nil {
							deferredLits[fl] = true
						}
					}
				}
			}
			return true
		})

		var stack []ast.Node
		stack = append(stack, fd)
		var visit func(n ast.Node) bool
		inDeferred := func() bool {
			for _, s := range stack {
				if fl, ok := s.(*ast.FuncLit); ok && deferredLits[fl] {
					return true
				}
			}
			return false
		}
		rootOf := func(e ast.Expr) *ast.Ident {
			for {
				switch x := e.(type) {
				case *ast.SelectorExpr:
					e = x.X
				case *ast.IndexExpr:
					e = x.X
				case *ast.StarExpr:
					e = x.X
				case *ast.ParenExpr:
					e = x.X
				case *ast.Ident:
					return x
				default:
					return nil
				}
			}
		}
		isMemRoot := func(e ast.Expr) bool {
			if _, plain := e.(*ast.Ident); plain {
				return false // assignment to a local variable itself
			}
			id := rootOf(e)
			if id == nil {
				return false
			}
			obj := p.info.Uses[id]
			if obj == nil {
				return false
			}
			if recvObj != nil && obj == recvObj {
				return true
			}
			v, ok := obj.(*types.Var)
			if !ok || v.Pkg() == nil || v.Pkg().Name() != filepath.Base(p.name) {
				return false
			}
			// a local of type pointer-to-struct declared in this package (acctInfo, ma, ...)
			if pt, ok := v.Type().(*types.Pointer); ok {
				if nm, ok := pt.Elem().(*types.Named); ok && nm.Obj().Pkg() != nil && nm.Obj().Pkg() == v.Pkg() {
					if _, ok := nm.Underlying().(*types.Struct); ok {
						return true
					}
				}
			}
			return false
		}
		visit = func(n ast.Node) bool {
			if n == nil {
				stack = stack[:len(stack)-1]
				return true
			}
			stack = append(stack, n)
			switch x := n.(type) {
			case *ast.AssignStmt:
				for _, l := range x.Lhs {
					if isMemRoot(l) {
						mems = append(mems, esMem{p.name, fname, p.fset.Position(l.Pos()).Line, inDeferred(), p.src(l)})
					}
				}
			case *ast.IncDecStmt:
				if isMemRoot(x.X) {
					mems = append(mems, esMem{p.name, fname, p.fset.Position(x.Pos()).Line, inDeferred(), p.src(x.X)})
				}
			case *ast.CallExpr:
				if id, ok := x.Fun.(*ast.Ident); ok && id.Name == "delete" && len(x.Args) == 2 {
					if sel, ok := x.Args[0].(*ast.SelectorExpr); ok && isMemRoot(sel) {
						mems = append(mems, esMem{p.name, fname, p.fset.Position(x.Pos()).Line, inDeferred(), "delete(" + p.src(x.Args[0]) + ", …)"})
					}
				}
				if callee := p.staticCallee(x); callee != nil {
					calls[fname] = append(calls[fname], p.funcName(p.decls[callee]))
				}
				kind, calleeName := "", ""
				if name, ok := p.isWalletdbPrim(x); ok {
					kind, calleeName = "prim", name
				} else if callee := p.staticCallee(x); callee != nil && p.writer[callee] {
					kind, calleeName = "helper", p.funcName(p.decls[callee])
				} else {
					for _, a := range x.Args {
						switch av := a.(type) {
						case *ast.FuncLit:
							if p.containsWrite(av.Body) {
								kind = "callback"
							}
						case *ast.Ident:
							if f, ok := p.info.Uses[av].(*types.Func); ok && p.writer[f] {
								kind = "callback"
							}
							if fl := litOfVar[p.info.Uses[av]]; fl != nil && p.containsWrite(fl.Body) {
								kind = "callback"
							}
						case *ast.SelectorExpr:
							if f, ok := p.info.Uses[av.Sel].(*types.Func); ok && p.writer[f] {
								kind = "callback"
							}
						}
					}
					if kind == "callback" {
						calleeName = p.src(x.Fun)
					} else if ei, _ := p.errIndex(x); ei >= 0 && cbTargets[p.info.Defs[fd.Name].(*types.Func)] {
						// dynamic call through a function value that returns an error
						var id *ast.Ident
						switch f := x.Fun.(type) {
						case *ast.Ident:
							id = f
						case *ast.SelectorExpr:
							id = f.Sel
						}
						if id != nil {
							if v, ok := p.info.Uses[id].(*types.Var); ok {
								if _, ok := v.Type().Underlying().(*types.Signature); ok {
									kind, calleeName = "dyncall", p.src(x.Fun)
								}
							}
						}
					}
				}
				if kind != "" {
					st := make([]ast.Node, len(stack))
					copy(st, stack)
					h, note := p.classify(st)
					sites = append(sites, esSite{
						pkg: p.name, fn: fname, ord: ord,
						line: p.fset.Position(x.Pos()).Line, endLine: p.fset.Position(x.End()).Line,
						callee: calleeName, kind: kind, handling: h, note: note,
					})
					ord++
				}
			}
			return true
		}
		ast.Inspect(fd.Body, visit)
	}
	return sites, mems, calls
}

func leanStr(s string) string {
	s = strings.ReplaceAll(s, "\\", "\\\\")
	s = strings.ReplaceAll(s, "\"", "\\\"")
	s = strings.ReplaceAll(s, "\n", " ")
	return "\"" + s + "\""
}

func extractErrSites(repo, out string) error {
	for k, v := range map[string]string{"GOFLAGS": "-mod=mod", "GOPROXY": "off", "GOSUMDB": "off", "GOTOOLCHAIN": "local", "CGO_ENABLED": "0"} {
		os.Setenv(k, v)
	}
	repo, _ = filepath.Abs(repo)
	out, _ = filepath.Abs(out)
	var sites []esSite
	var mems []esMem
	exported := []string{}
	reach := map[string][]string{}
	for _, sub := range []string{"wtxmgr", "waddrmgr"} {
		p, err := esLoad(repo, sub)
		if err != nil {
			return err
		}
		p.computeWriters()
		s, m, calls := p.sitesAndMem()
		sites = append(sites, s...)
		mems = append(mems, m...)
		for fn, fd := range p.decls {
			if fd.Name.IsExported() && p.writer[fn] {
				exported = append(exported, p.funcName(fd))
			}
		}
		for k, v := range calls {
			reach[k] = v
		}
	}
	if len(sites) < 50 {
		return fmt.Errorf("errsites: only %d sites found - source layout not understood", len(sites))
	}
	sort.Strings(exported)

	// frame table: one key per source line covered by a site; worst handling wins on collisions
	rank := map[string]int{"propagated": 0, "converted": 1, "loggedOnly": 2, "ignored": 3, "unknown": 4}
	table := map[string]string{}
	var keys []string
	for _, s := range sites {
		for l := s.line; l <= s.endLine; l++ {
			k := fmt.Sprintf("%s:%d", s.fn, l)
			if old, ok := table[k]; !ok {
				table[k] = s.handling
				keys = append(keys, k)
			} else if rank[s.handling] > rank[old] {
				table[k] = s.handling
			}
		}
	}

	var b strings.Builder
	b.WriteString("/- GENERATED by `vxextract errsites` from wtxmgr/*.go and waddrmgr/*.go - do not edit.\n")
	b.WriteString("   Every call through which control can reach a mutating walletdb primitive, with the handling of its error. -/\n")
	b.WriteString("import BtcwVerif.Model.FaultOps\nnamespace ErrSitesGen\nopen FaultOps\n\n")
	b.WriteString("structure Site where\n  fn : String\n  ord : Nat\n  line : Nat\n  endLine : Nat\n  kind : String\n  callee : String\n  handling : Handling\n  note : String\n\n")
	b.WriteString("def sites : List Site := [\n")
	for i, s := range sites {
		sep := ","
		if i == len(sites)-1 {
			sep = ""
		}
		fmt.Fprintf(&b, "  ⟨%s, %d, %d, %d, %s, %s, .%s, %s⟩%s\n", leanStr(s.fn), s.ord, s.line, s.endLine, leanStr(s.kind), leanStr(s.callee), s.handling, leanStr(s.note), sep)
	}
	b.WriteString("]\n\n")
	b.WriteString("/-- Every extracted site propagates the error of the write it leads to. -/\n")
	b.WriteString("def allPropagated : Bool := sites.all (fun s => s.handling == .propagated)\n\n")
	b.WriteString("/-- The sites that do not propagate (empty on the unchanged tree). -/\n")
	b.WriteString("def offenders : List Site := sites.filter (fun s => !(s.handling == .propagated))\n\n")
	b.WriteString("/-- Frame table used to resolve dynamic call stacks: \"<function>:<line>\" ↦ handling. -/\n")
	b.WriteString("def table : List (String × Handling) := [\n")
	for i, k := range keys {
		sep := ","
		if i == len(keys)-1 {
			sep = ""
		}
		fmt.Fprintf(&b, "  (%s, .%s)%s\n", leanStr(k), table[k], sep)
	}
	b.WriteString("]\n\n")
	// in-memory mutation sites (best effort, informational + used by notes)
	b.WriteString("structure MemSite where\n  fn : String\n  line : Nat\n  deferred : Bool\n  lhs : String\n\n")
	b.WriteString("/-- Assignments to manager state reachable through a receiver / package struct pointer (best effort);\n    `deferred = true` when inside a closure registered with `OnCommit`. -/\n")
	b.WriteString("def memSites : List MemSite := [\n")
	for i, m := range mems {
		sep := ","
		if i == len(mems)-1 {
			sep = ""
		}
		fmt.Fprintf(&b, "  ⟨%s, %d, %v, %s⟩%s\n", leanStr(m.fn), m.line, m.deferred, leanStr(m.lhs), sep)
	}
	b.WriteString("]\n\n")
	// per exported mutating operation: reachable functions that have eager / deferred memory sites
	memBy := map[string][2]int{}
	for _, m := range mems {
		c := memBy[m.fn]
		if m.deferred {
			c[1]++
		} else {
			c[0]++
		}
		memBy[m.fn] = c
	}
	b.WriteString("/-- Per exported mutating operation: (operation, #eager memory sites, #OnCommit-deferred memory sites)\n    statically reachable through calls inside the package. -/\n")
	b.WriteString("def opMem : List (String × Nat × Nat) := [\n")
	for i, op := range exported {
		seen := map[string]bool{}
		var dfs func(f string)
		e, d := 0, 0
		dfs = func(f string) {
			if seen[f] {
				return
			}
			seen[f] = true
			e += memBy[f][0]
			d += memBy[f][1]
			for _, g := range reach[f] {
				dfs(g)
			}
		}
		dfs(op)
		sep := ","
		if i == len(exported)-1 {
			sep = ""
		}
		fmt.Fprintf(&b, "  (%s, %d, %d)%s\n", leanStr(op), e, d, sep)
	}
	b.WriteString("]\n\nend ErrSitesGen\n")
	if err := os.MkdirAll(filepath.Dir(out), 0o755); err != nil {
		return err
	}
	return os.WriteFile(out, []byte(b.String()), 0o644)
}
