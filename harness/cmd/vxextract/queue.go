// Extractor "queue" (C18): chain/queue.go -> lean/BtcwVerif/Gen/QueueGen.lean
//
// Reads the `Start` loop of ConcurrentQueue with go/ast and emits it as a `Queue.Table`: for each branch of the
// `nextElement == nil` test the list of select clauses (kind + body actions), plus structural facts about the
// constructor, accessors and Stop.  Anything not understood becomes `.unknown` / `false` / an empty clause list, so
// that `C18_generated_table : QueueGen.table = Queue.expectedTable := by decide` fails; nothing is silently accepted.
package main

import (
	"fmt"
	"go/ast"
	"go/parser"
	"go/printer"
	"go/token"
	"os"
	"path/filepath"
	"strings"
)

func init() { extractors["queue"] = extractQueue }

type qx struct {
	fset  *token.FileSet
	recv  string // receiver name in Start
	notes []string
}

func (x *qx) src(n ast.Node) string {
	var sb strings.Builder
	_ = printer.Fprint(&sb, x.fset, n)
	return strings.Join(strings.Fields(sb.String()), " ")
}

func (x *qx) note(format string, a ...interface{}) { x.notes = append(x.notes, fmt.Sprintf(format, a...)) }

// isSel reports whether e is `<recv>.<field>`.
func (x *qx) isSel(e ast.Expr, recv, field string) bool {
	s, ok := e.(*ast.SelectorExpr)
	if !ok || s.Sel.Name != field {
		return false
	}
	id, ok := s.X.(*ast.Ident)
	return ok && id.Name == recv
}

func isIdent(e ast.Expr, name string) bool {
	id, ok := e.(*ast.Ident)
	return ok && id.Name == name
}

// commKind classifies the communication of a select clause.
func (x *qx) commKind(c *ast.CommClause) string {
	if c.Comm == nil {
		return ".dflt"
	}
	switch s := c.Comm.(type) {
	case *ast.AssignStmt: // item := <-cq.chanIn
		if s.Tok == token.DEFINE && len(s.Lhs) == 1 && len(s.Rhs) == 1 && isIdent(s.Lhs[0], "item") {
			if u, ok := s.Rhs[0].(*ast.UnaryExpr); ok && u.Op == token.ARROW && x.isSel(u.X, x.recv, "chanIn") {
				return ".recvIn"
			}
		}
	case *ast.ExprStmt: // <-cq.quit
		if u, ok := s.X.(*ast.UnaryExpr); ok && u.Op == token.ARROW && x.isSel(u.X, x.recv, "quit") {
			return ".quit"
		}
	case *ast.SendStmt: // cq.chanOut <- item | nextElement.Value
		if x.isSel(s.Chan, x.recv, "chanOut") {
			if isIdent(s.Value, "item") {
				return ".sendItem"
			}
			if x.isSel(s.Value, "nextElement", "Value") {
				return ".sendFront"
			}
		}
	}
	x.note("unknown select communication: %s", x.src(c.Comm))
	return ".unknown"
}

// overflowCall matches `cq.overflow.<method>(<arg ident>)`.
func (x *qx) overflowCall(st ast.Stmt, method, arg string) bool {
	es, ok := st.(*ast.ExprStmt)
	if !ok {
		return false
	}
	call, ok := es.X.(*ast.CallExpr)
	if !ok || len(call.Args) != 1 || !isIdent(call.Args[0], arg) {
		return false
	}
	sel, ok := call.Fun.(*ast.SelectorExpr)
	return ok && sel.Sel.Name == method && x.isSel(sel.X, x.recv, "overflow")
}

func (x *qx) simpleAct(st ast.Stmt) (string, bool) {
	switch {
	case x.overflowCall(st, "PushBack", "item"):
		return ".pushBackItem", true
	case x.overflowCall(st, "PushFront", "item"):
		return ".pushFrontItem", true
	case x.overflowCall(st, "Remove", "nextElement"):
		return ".removeFront", true
	}
	if r, ok := st.(*ast.ReturnStmt); ok && len(r.Results) == 0 {
		return ".ret", true
	}
	return "", false
}

// innerSelect renders a nested select as a list of ICase.
func (x *qx) innerSelect(sel *ast.SelectStmt) string {
	var cs []string
	for _, cl := range sel.Body.List {
		cc := cl.(*ast.CommClause)
		var body []string
		for _, st := range cc.Body {
			if a, ok := x.simpleAct(st); ok {
				body = append(body, a)
			} else {
				x.note("unknown statement in nested select: %s", x.src(st))
				body = append(body, ".unknown")
			}
		}
		cs = append(cs, fmt.Sprintf("⟨%s, [%s]⟩", x.commKind(cc), strings.Join(body, ", ")))
	}
	return "[" + strings.Join(cs, ", ") + "]"
}

// outerSelect renders the single select statement of a branch block as a list of OCase.
func (x *qx) outerSelect(blk *ast.BlockStmt) string {
	if blk == nil || len(blk.List) != 1 {
		x.note("branch is not exactly one select statement")
		return "[]"
	}
	sel, ok := blk.List[0].(*ast.SelectStmt)
	if !ok {
		x.note("branch is not a select statement: %s", x.src(blk.List[0]))
		return "[]"
	}
	var cs []string
	for _, cl := range sel.Body.List {
		cc := cl.(*ast.CommClause)
		var body []string
		for i, st := range cc.Body {
			if a, ok := x.simpleAct(st); ok {
				body = append(body, ".simple "+a)
			} else if in, ok := st.(*ast.SelectStmt); ok && i == len(cc.Body)-1 {
				body = append(body, ".select "+x.innerSelect(in))
			} else {
				x.note("unknown statement in select clause: %s", x.src(st))
				body = append(body, ".simple .unknown")
			}
		}
		cs = append(cs, fmt.Sprintf("⟨%s, [%s]⟩", x.commKind(cc), strings.Join(body, ", ")))
	}
	return "[" + strings.Join(cs, ",\n     ") + "]"
}

func leanBool(b bool) string {
	if b {
		return "true"
	}
	return "false"
}

func extractQueue(repo, out string) error {
	path := filepath.Join(repo, "chain", "queue.go")
	x := &qx{fset: token.NewFileSet()}
	f, err := parser.ParseFile(x.fset, path, nil, 0)
	if err != nil {
		return err
	}
	facts := map[string]bool{}
	onEmpty, onNonEmpty := "[]", "[]"

	for _, d := range f.Decls {
		fd, ok := d.(*ast.FuncDecl)
		if !ok || fd.Body == nil {
			continue
		}
		recv := ""
		if fd.Recv != nil && len(fd.Recv.List) == 1 && len(fd.Recv.List[0].Names) == 1 {
			if st, ok := fd.Recv.List[0].Type.(*ast.StarExpr); ok && isIdent(st.X, "ConcurrentQueue") {
				recv = fd.Recv.List[0].Names[0].Name
			}
		}
		switch {
		case fd.Recv == nil && fd.Name.Name == "NewConcurrentQueue":
			// return &ConcurrentQueue{chanIn: make(chan interface{}), chanOut: make(chan interface{}, bufferSize), ...}
			param := ""
			if fd.Type.Params != nil && len(fd.Type.Params.List) == 1 && len(fd.Type.Params.List[0].Names) == 1 {
				param = fd.Type.Params.List[0].Names[0].Name
			}
			if len(fd.Body.List) == 1 {
				if r, ok := fd.Body.List[0].(*ast.ReturnStmt); ok && len(r.Results) == 1 {
					if u, ok := r.Results[0].(*ast.UnaryExpr); ok && u.Op == token.AND {
						if cl, ok := u.X.(*ast.CompositeLit); ok && isIdent(cl.Type, "ConcurrentQueue") && len(cl.Elts) == 4 {
							for _, e := range cl.Elts {
								kv, ok := e.(*ast.KeyValueExpr)
								if !ok {
									continue
								}
								k, _ := kv.Key.(*ast.Ident)
								if k == nil {
									continue
								}
								v := x.src(kv.Value)
								switch k.Name {
								case "chanIn":
									facts["chanInUnbuffered"] = v == "make(chan interface{})"
								case "chanOut":
									facts["chanOutCapIsParam"] = param != "" && v == "make(chan interface{}, "+param+")"
								case "quit":
									facts["quitUnbuffered"] = v == "make(chan struct{})"
								case "overflow":
									facts["overflowIsNewList"] = v == "list.New()"
								}
							}
						}
					}
				}
			}
		case recv != "" && (fd.Name.Name == "ChanIn" || fd.Name.Name == "ChanOut"):
			field := "chanIn"
			if fd.Name.Name == "ChanOut" {
				field = "chanOut"
			}
			ok := false
			if len(fd.Body.List) == 1 {
				if r, isRet := fd.Body.List[0].(*ast.ReturnStmt); isRet && len(r.Results) == 1 {
					ok = x.isSel(r.Results[0], recv, field)
				}
			}
			facts["accessor"+fd.Name.Name] = ok
		case recv != "" && fd.Name.Name == "Stop":
			ok := false
			if len(fd.Body.List) == 1 {
				if es, isE := fd.Body.List[0].(*ast.ExprStmt); isE {
					if call, isC := es.X.(*ast.CallExpr); isC && isIdent(call.Fun, "close") && len(call.Args) == 1 {
						ok = x.isSel(call.Args[0], recv, "quit")
					}
				}
			}
			facts["stopClosesQuit"] = ok
		case recv != "" && fd.Name.Name == "Start":
			x.recv = recv
			// go func() { for { ... } }()
			var loop *ast.ForStmt
			if len(fd.Body.List) == 1 {
				if g, ok := fd.Body.List[0].(*ast.GoStmt); ok && len(g.Call.Args) == 0 {
					if fl, ok := g.Call.Fun.(*ast.FuncLit); ok && len(fl.Body.List) == 1 {
						if fs, ok := fl.Body.List[0].(*ast.ForStmt); ok && fs.Init == nil && fs.Cond == nil && fs.Post == nil {
							loop = fs
						}
					}
				}
			}
			facts["startSpawnsLoop"] = loop != nil
			if loop == nil {
				x.note("Start is not `go func() { for { ... } }()`")
				break
			}
			if len(loop.Body.List) != 2 {
				x.note("loop body is not [nextElement := ...; if ...] (%d statements)", len(loop.Body.List))
				break
			}
			// nextElement := cq.overflow.Front()
			if as, ok := loop.Body.List[0].(*ast.AssignStmt); ok && as.Tok == token.DEFINE && len(as.Lhs) == 1 &&
				len(as.Rhs) == 1 && isIdent(as.Lhs[0], "nextElement") {
				facts["frontIsOverflowFront"] = x.src(as.Rhs[0]) == recv+".overflow.Front()"
			}
			// if nextElement == nil { select } else { select }
			is, ok := loop.Body.List[1].(*ast.IfStmt)
			if !ok || is.Init != nil {
				x.note("second loop statement is not a plain if")
				break
			}
			be, ok := is.Cond.(*ast.BinaryExpr)
			if !ok || !(isIdent(be.X, "nextElement") && isIdent(be.Y, "nil") || isIdent(be.X, "nil") && isIdent(be.Y, "nextElement")) ||
				(be.Op != token.EQL && be.Op != token.NEQ) {
				x.note("if condition is not a nil test of nextElement: %s", x.src(is.Cond))
				break
			}
			elseBlk, _ := is.Else.(*ast.BlockStmt)
			if elseBlk == nil {
				x.note("if has no plain else block")
				break
			}
			facts["branchOnFrontNil"] = true
			if be.Op == token.EQL {
				onEmpty, onNonEmpty = x.outerSelect(is.Body), x.outerSelect(elseBlk)
			} else {
				onEmpty, onNonEmpty = x.outerSelect(elseBlk), x.outerSelect(is.Body)
			}
		default:
			if recv != "" || fd.Recv == nil {
				x.note("additional function %s (not modelled)", fd.Name.Name)
			}
		}
	}

	var sb strings.Builder
	sb.WriteString("/- GENERATED by `vxextract queue` from chain/queue.go — do not edit. -/\n")
	sb.WriteString("import BtcwVerif.Model.Queue\nnamespace QueueGen\nopen Queue\n\n")
	for _, n := range x.notes {
		sb.WriteString("-- note: " + strings.ReplaceAll(n, "\n", " ") + "\n")
	}
	fmt.Fprintf(&sb, "def table : Table :=\n  { onEmpty :=\n    %s\n    onNonEmpty :=\n    %s\n    facts :=\n", onEmpty, onNonEmpty)
	fmt.Fprintf(&sb, "      { chanInUnbuffered := %s\n        chanOutCapIsParam := %s\n        quitUnbuffered := %s\n        overflowIsNewList := %s\n        accessorsDirect := %s\n        stopClosesQuit := %s\n        startSpawnsLoop := %s\n        frontIsOverflowFront := %s\n        branchOnFrontNil := %s } }\n",
		leanBool(facts["chanInUnbuffered"]), leanBool(facts["chanOutCapIsParam"]), leanBool(facts["quitUnbuffered"]),
		leanBool(facts["overflowIsNewList"]), leanBool(facts["accessorChanIn"] && facts["accessorChanOut"]),
		leanBool(facts["stopClosesQuit"]), leanBool(facts["startSpawnsLoop"]), leanBool(facts["frontIsOverflowFront"]),
		leanBool(facts["branchOnFrontNil"]))
	sb.WriteString("\nend QueueGen\n")
	if err := os.MkdirAll(filepath.Dir(out), 0o755); err != nil {
		return err
	}
	return os.WriteFile(out, []byte(sb.String()), 0o644)
}
