package main

// createtx-sites: regenerates lean/BtcwVerif/Gen/CreateTxSitesGen.lean from <repo>/wallet/*.go (non-test).
//
// C06's "no later transaction reuses the inputs" rests on coin selection being serialised: the model treats every
// txToOutputs call as atomic with respect to the others.  In the Go code this is provided by the createTxRequests
// channel: CreateSimpleTx is the only sender, the txCreator goroutine (started exactly once, by Start) is the only
// receiver and the only caller of txToOutputs, and it answers one request before taking the next.  This extractor
// reads those facts off the source (syntactically, by name) so that `C06_generated_serialised` (a `decide`) fails
// when the structure changes:
//
//	txToOutputsCallers    functions/methods of package wallet whose body calls <x>.txToOutputs(…)
//	findEligibleCallers   … <x>.findEligibleOutputs(…)
//	requestReceivers      … contain a receive from <x>.createTxRequests (`<-x.createTxRequests`, also as select case)
//	requestSenders        … contain a send `x.createTxRequests <- …`
//	txCreatorSpawns       number of `go <x>.txCreator()` statements, and the functions containing them
//	txCreatorCallsInGo    true if txCreator calls txToOutputs inside a `go` statement or a function literal (which would
//	                      let two selections overlap)
//	channelBuffered       true if createTxRequests is made with a buffer size other than 0 (informational)
//	holdUnlockErrorIsFatal  true if, in txCreator, every `… , err := <x>.holdUnlock()` is directly followed by a plain
//	                      `if err != nil { …; continue }` (no other condition, no switch on the error kind): a locked
//	                      wallet never reaches txToOutputs (model: CoinSelect.txCreator; round 2, seed C06-5)

import (
	"fmt"
	"go/ast"
	"go/parser"
	"go/token"
	"os"
	"path/filepath"
	"sort"
	"strings"
)

func init() { extractors["createtx-sites"] = extractCreateTxSites }

func ctsSelName(e ast.Expr) string {
	if s, ok := e.(*ast.SelectorExpr); ok {
		return s.Sel.Name
	}
	return ""
}

// ctsHoldUnlockGuard inspects the statement lists of fn: (number of holdUnlock assignments, number of them directly
// followed by `if err != nil { …; continue }`).
func ctsHoldUnlockGuard(fn *ast.FuncDecl) (calls, guarded int) {
	isHold := func(st ast.Stmt) bool {
		as, ok := st.(*ast.AssignStmt)
		if !ok || len(as.Rhs) != 1 || len(as.Lhs) != 2 {
			return false
		}
		c, ok := as.Rhs[0].(*ast.CallExpr)
		if !ok || ctsSelName(c.Fun) != "holdUnlock" {
			return false
		}
		id, ok := as.Lhs[1].(*ast.Ident)
		return ok && id.Name == "err"
	}
	isFatalIf := func(st ast.Stmt) bool {
		is, ok := st.(*ast.IfStmt)
		if !ok || is.Init != nil || is.Else != nil || len(is.Body.List) == 0 {
			return false
		}
		be, ok := is.Cond.(*ast.BinaryExpr)
		if !ok || be.Op != token.NEQ {
			return false
		}
		x, ok1 := be.X.(*ast.Ident)
		y, ok2 := be.Y.(*ast.Ident)
		if !ok1 || !ok2 || x.Name != "err" || y.Name != "nil" {
			return false
		}
		br, ok := is.Body.List[len(is.Body.List)-1].(*ast.BranchStmt)
		return ok && br.Tok == token.CONTINUE && br.Label == nil
	}
	visit := func(list []ast.Stmt) {
		for i, st := range list {
			if isHold(st) {
				calls++
				if i+1 < len(list) && isFatalIf(list[i+1]) {
					guarded++
				}
			}
		}
	}
	ast.Inspect(fn.Body, func(x ast.Node) bool {
		switch v := x.(type) {
		case *ast.BlockStmt:
			visit(v.List)
		case *ast.CaseClause:
			visit(v.Body)
		case *ast.CommClause:
			visit(v.Body)
		}
		return true
	})
	return
}

func extractCreateTxSites(repo, out string) error {
	dir := filepath.Join(repo, "wallet")
	fset := token.NewFileSet()
	pkgs, err := parser.ParseDir(fset, dir, func(fi os.FileInfo) bool { return !strings.HasSuffix(fi.Name(), "_test.go") }, 0)
	if err != nil {
		return err
	}
	pkg := pkgs["wallet"]
	if pkg == nil {
		return fmt.Errorf("package wallet not found in %s", dir)
	}
	set := map[string]map[string]bool{"tx": {}, "elig": {}, "recv": {}, "send": {}, "spawn": {}}
	spawns := 0
	inGo := false
	buffered := false
	sawMake := false
	holdCalls, holdGuarded := 0, 0
	var files []string
	for n := range pkg.Files {
		files = append(files, n)
	}
	sort.Strings(files)
	for _, fn := range files {
		for _, d := range pkg.Files[fn].Decls {
			fd, ok := d.(*ast.FuncDecl)
			if !ok || fd.Body == nil {
				continue
			}
			name := fd.Name.Name
			if name == "txCreator" {
				c, g := ctsHoldUnlockGuard(fd)
				holdCalls += c
				holdGuarded += g
			}
			// depth of enclosing go statements / function literals while walking
			var walk func(n ast.Node, nested bool)
			walk = func(n ast.Node, nested bool) {
				ast.Inspect(n, func(x ast.Node) bool {
					switch v := x.(type) {
					case *ast.GoStmt:
						if ctsSelName(v.Call.Fun) == "txCreator" {
							spawns++
							set["spawn"][name] = true
						}
						walk(v.Call, true)
						return false
					case *ast.FuncLit:
						walk(v.Body, true)
						return false
					case *ast.CallExpr:
						switch ctsSelName(v.Fun) {
						case "txToOutputs":
							set["tx"][name] = true
							if nested && name == "txCreator" {
								inGo = true
							}
						case "findEligibleOutputs":
							set["elig"][name] = true
						}
						if id, ok := v.Fun.(*ast.Ident); ok && id.Name == "make" && len(v.Args) >= 1 {
							if ch, ok := v.Args[0].(*ast.ChanType); ok {
								if id2, ok := ch.Value.(*ast.Ident); ok && id2.Name == "createTxRequest" {
									sawMake = true
									if len(v.Args) > 1 {
										if lit, ok := v.Args[1].(*ast.BasicLit); !ok || lit.Value != "0" {
											buffered = true
										}
									}
								}
							}
						}
					case *ast.UnaryExpr:
						if v.Op == token.ARROW && ctsSelName(v.X) == "createTxRequests" {
							set["recv"][name] = true
						}
					case *ast.SendStmt:
						if ctsSelName(v.Chan) == "createTxRequests" {
							set["send"][name] = true
						}
					}
					return true
				})
			}
			walk(fd.Body, false)
		}
	}
	if !sawMake {
		return fmt.Errorf("createtx-sites: no make(chan createTxRequest …) found — the serialising channel is gone or renamed")
	}
	list := func(k string) string {
		var l []string
		for n := range set[k] {
			l = append(l, fmt.Sprintf("%q", n))
		}
		sort.Strings(l)
		return "[" + strings.Join(l, ", ") + "]"
	}
	b := func(x bool) string {
		if x {
			return "true"
		}
		return "false"
	}
	src := "/-! GENERATED by harness/cmd/vxextract/createtxsites.go from wallet/*.go — do not edit. -/\n" +
		"namespace CreateTxSitesGen\n\n" +
		"def txToOutputsCallers : List String := " + list("tx") + "\n" +
		"def findEligibleCallers : List String := " + list("elig") + "\n" +
		"def requestReceivers : List String := " + list("recv") + "\n" +
		"def requestSenders : List String := " + list("send") + "\n" +
		"def txCreatorSpawners : List String := " + list("spawn") + "\n" +
		fmt.Sprintf("def txCreatorSpawns : Nat := %d\n", spawns) +
		"def txCreatorCallsInGo : Bool := " + b(inGo) + "\n" +
		"def channelBuffered : Bool := " + b(buffered) + "\n" +
		"def holdUnlockErrorIsFatal : Bool := " + b(holdCalls > 0 && holdCalls == holdGuarded) + "\n\n" +
		"end CreateTxSitesGen\n"
	if err := os.MkdirAll(filepath.Dir(out), 0o755); err != nil {
		return err
	}
	return os.WriteFile(out, []byte(src), 0o644)
}
