// Extractor "notifloop" (C18): the notification queues of chain/btcd.go (`(*RPCClient).handler`) and
// chain/neutrino.go (`(*NeutrinoClient).notificationHandler`) -> lean/BtcwVerif/Gen/NotifLoopGen.lean
//
// These two backends do not use ConcurrentQueue; each carries its own slice-based queue inside a `for { select }`
// loop.  The extractor recognises the select clauses and the idioms of their bodies (by their normalised source:
// comments dropped, whitespace collapsed, receiver renamed to X) and emits a `NotifLoop.Table` per backend.
// Anything it does not recognise becomes `.unknown` / `false`, which makes `C18_generated_loops` (decide) fail.
package main

import (
	"fmt"
	"go/ast"
	"go/parser"
	"go/printer"
	"go/token"
	"os"
	"path/filepath"
	"regexp"
	"strings"
)

func init() { extractors["notifloop"] = extractNotifLoop }

var nlComm = map[string]string{
	"n, ok := <-enqueue":   ".recvEnqueue",
	"dequeue <- next":      ".sendDequeue",
	"X.currentBlock <- bs": ".sendCurrentBlock",
	"<-X.quit":             ".quit",
	"err := <-rescanErr":   ".recvRescanErr",
}

var nlBody = map[string]string{
	"":          ".nothing",
	"break out": ".breakOut",
	"if !ok { if len(notifications) == 0 { break out } enqueue = nil continue } " +
		"if len(notifications) == 0 { next = n dequeue = X.dequeueNotification } " +
		"notifications = append(notifications, n)": ".appendAndArm",
	"if n, ok := next.(BlockConnected); ok { bs = &waddrmgr.BlockStamp{ Height: n.Height, Hash: n.Hash, } } " +
		"notifications[0] = nil notifications = notifications[1:] " +
		"if len(notifications) != 0 { next = notifications[0] } else { if enqueue == nil { break out } dequeue = nil }": ".popAndDisarm",
	"if err != nil { log.Errorf(\"Neutrino rescan ended with error: %s\", err) }": ".logOnly",
}

type nlx struct {
	fset *token.FileSet
	recv string
	re   *regexp.Regexp
}

func (x *nlx) norm(nodes ...ast.Node) string {
	var parts []string
	for _, n := range nodes {
		var sb strings.Builder
		_ = printer.Fprint(&sb, x.fset, n)
		parts = append(parts, sb.String())
	}
	s := strings.Join(strings.Fields(strings.Join(parts, "\n")), " ")
	return x.re.ReplaceAllString(s, "X.")
}

func stmtNodes(l []ast.Stmt) []ast.Node {
	var n []ast.Node
	for _, s := range l {
		n = append(n, s)
	}
	return n
}

// loopTable extracts one handler function.
func extractLoop(repo, file, typ, fn string) (lean string, notes []string) {
	fail := func(format string, a ...interface{}) (string, []string) {
		notes = append(notes, fmt.Sprintf(file+": "+format, a...))
		return "{ cases := [], varsOk := false, loopPreludeOk := false, epilogueOk := false, chansUnbuffered := false, enqueueNeverClosed := false }", notes
	}
	fset := token.NewFileSet()
	f, err := parser.ParseFile(fset, filepath.Join(repo, "chain", file), nil, 0)
	if err != nil {
		return fail("parse: %v", err)
	}
	var fd *ast.FuncDecl
	for _, d := range f.Decls {
		if g, ok := d.(*ast.FuncDecl); ok && g.Name.Name == fn && g.Recv != nil && len(g.Recv.List) == 1 && len(g.Recv.List[0].Names) == 1 {
			if st, ok := g.Recv.List[0].Type.(*ast.StarExpr); ok && isIdent(st.X, typ) {
				fd = g
			}
		}
	}
	if fd == nil {
		return fail("method (*%s).%s not found", typ, fn)
	}
	recv := fd.Recv.List[0].Names[0].Name
	x := &nlx{fset: fset, recv: recv, re: regexp.MustCompile(`\b` + regexp.QuoteMeta(recv) + `\.`)}

	// locate `out: for { ... }`
	loopIdx := -1
	var loop *ast.ForStmt
	for i, st := range fd.Body.List {
		if ls, ok := st.(*ast.LabeledStmt); ok && ls.Label.Name == "out" {
			if fs, ok := ls.Stmt.(*ast.ForStmt); ok && fs.Init == nil && fs.Cond == nil && fs.Post == nil {
				loopIdx, loop = i, fs
			}
		}
	}
	if loop == nil {
		return fail("no `out: for { … }` loop in %s", fn)
	}
	// variables declared before the loop
	pre := " " + x.norm(stmtNodes(fd.Body.List[:loopIdx])...) + " "
	varsOk := true
	for _, want := range []string{"var notifications []interface{}", "enqueue := X.enqueueNotification", "var dequeue chan interface{}", "var next interface{}"} {
		if !strings.Contains(pre, " "+want+" ") {
			varsOk = false
			notes = append(notes, file+": missing before the loop: "+want)
		}
	}
	for _, v := range []string{"notifications", "enqueue", "dequeue", "next"} {
		// no other assignment to the queue variables before the loop
		if strings.Count(pre, " "+v+" =") > 0 || strings.Count(pre, " "+v+" :=") > 1 {
			varsOk = false
			notes = append(notes, file+": extra assignment to "+v+" before the loop")
		}
	}
	epi := x.norm(stmtNodes(fd.Body.List[loopIdx+1:])...)
	epilogueOk := epi == "X.Stop() close(X.dequeueNotification) X.wg.Done()"
	if !epilogueOk {
		notes = append(notes, file+": statements after the loop: "+epi)
	}
	// loop body: [whitelisted prelude] select
	if len(loop.Body.List) == 0 {
		return fail("empty loop")
	}
	sel, ok := loop.Body.List[len(loop.Body.List)-1].(*ast.SelectStmt)
	if !ok {
		return fail("last loop statement is not a select")
	}
	lp := x.norm(stmtNodes(loop.Body.List[:len(loop.Body.List)-1])...)
	loopPreludeOk := lp == "" || lp == "X.clientMtx.Lock() rescanErr := X.rescanErr X.clientMtx.Unlock()"
	if !loopPreludeOk {
		notes = append(notes, file+": statements before the select: "+lp)
	}
	var cs []string
	for _, cl := range sel.Body.List {
		cc := cl.(*ast.CommClause)
		kind := ".dflt"
		if cc.Comm != nil {
			c := x.norm(cc.Comm)
			k, ok := nlComm[c]
			if !ok {
				k = ".unknown"
				notes = append(notes, file+": unknown select communication: "+c)
			}
			kind = k
		}
		b := x.norm(stmtNodes(cc.Body)...)
		body, ok := nlBody[b]
		if !ok {
			body = ".unknown"
			notes = append(notes, file+": unknown clause body: "+b)
		}
		cs = append(cs, fmt.Sprintf("⟨%s, %s⟩", kind, body))
	}
	// channel construction and closing, anywhere in the file
	whole := x.norm(f)
	// receiver names differ between functions of the same file; look for the field names only
	unbuf := regexp.MustCompile(`enqueueNotification(:| =) make\(chan interface\{\}\)`)
	unbufD := regexp.MustCompile(`dequeueNotification(:| =) make\(chan interface\{\}\)`)
	anyMakeE := regexp.MustCompile(`enqueueNotification(:| =) make\(`)
	anyMakeD := regexp.MustCompile(`dequeueNotification(:| =) make\(`)
	chansUnbuffered := len(unbuf.FindAllString(whole, -1)) > 0 && len(unbuf.FindAllString(whole, -1)) == len(anyMakeE.FindAllString(whole, -1)) &&
		len(unbufD.FindAllString(whole, -1)) > 0 && len(unbufD.FindAllString(whole, -1)) == len(anyMakeD.FindAllString(whole, -1))
	neverClosed := !regexp.MustCompile(`close\([A-Za-z_]+\.enqueueNotification\)`).MatchString(whole)
	return fmt.Sprintf("{ cases := [%s],\n    varsOk := %s, loopPreludeOk := %s, epilogueOk := %s, chansUnbuffered := %s, enqueueNeverClosed := %s }",
		strings.Join(cs, ", "), leanBool(varsOk), leanBool(loopPreludeOk), leanBool(epilogueOk), leanBool(chansUnbuffered), leanBool(neverClosed)), notes
}

func extractNotifLoop(repo, out string) error {
	b, n1 := extractLoop(repo, "btcd.go", "RPCClient", "handler")
	n, n2 := extractLoop(repo, "neutrino.go", "NeutrinoClient", "notificationHandler")
	var sb strings.Builder
	sb.WriteString("/- GENERATED by `vxextract notifloop` from chain/btcd.go and chain/neutrino.go — do not edit. -/\n")
	sb.WriteString("import BtcwVerif.Model.NotifLoop\nnamespace NotifLoopGen\nopen NotifLoop\n\n")
	for _, s := range append(n1, n2...) {
		sb.WriteString("-- note: " + strings.ReplaceAll(s, "\n", " ") + "\n")
	}
	fmt.Fprintf(&sb, "def btcd : Table :=\n  %s\n\ndef neutrino : Table :=\n  %s\n\nend NotifLoopGen\n", b, n)
	if err := os.MkdirAll(filepath.Dir(out), 0o755); err != nil {
		return err
	}
	return os.WriteFile(out, []byte(sb.String()), 0o644)
}
