package main

// addrsites: regenerates lean/BtcwVerif/Gen/AddrSitesGen.lean from <repo>/wallet/*.go (non-test).
//
// A *site* is a function of package wallet that opens a read-write database transaction
// (walletdb.Update / walletdb.Batch / <db>.Update / <db>.Batch) whose closure reaches — directly or transitively
// through functions and methods of package wallet, function literals included — a call of
// NextExternalAddresses / NextInternalAddresses.  For every site the extractor decides syntactically whether the
// transaction call is dominated by `<x>.newAddrMtx.Lock()` and followed by the matching Unlock:
//
//	defer    : `x.newAddrMtx.Lock()` and `defer x.newAddrMtx.Unlock()` are statements of blocks enclosing the
//	           transaction call, both before it, in this order
//	explicit : Lock statement before and Unlock statement after the transaction statement in the same block, with
//	           nothing but the transaction statement in between
//	none     : no newAddrMtx operation on the path
//
// Anything else (goto/labels, the call sits in a nested function literal or `go` statement, unlock before the
// call, closure not resolvable, an exported helper that reaches Next*Addresses on a caller-provided bucket, ...)
// is emitted with holdsMutex := false and shape "unrecognised:<why>", which makes `C09_generated_sites_hold` fail.

import (
	"fmt"
	"go/ast"
	"go/parser"
	"go/token"
	"os"
	"path/filepath"
	"sort"
	"strings"
)

func init() { extractors["addrsites"] = extractAddrSites }

type asFunc struct {
	key  string // Recv.Name or Name
	name string
	decl *ast.FuncDecl
	ext  bool
	int_ bool
	// names of package-level functions / methods called anywhere in the body (function literals included)
	calls map[string]bool
}

type asSite struct {
	name      string
	holds     bool
	ext, int_ bool
	shape     string
	mutex     string // "recv.newAddrMtx" when the mutex is the field of the method's own receiver
}

const asMutexField = "newAddrMtx"

func asRecvName(d *ast.FuncDecl) string {
	if d.Recv == nil || len(d.Recv.List) == 0 {
		return ""
	}
	t := d.Recv.List[0].Type
	if s, ok := t.(*ast.StarExpr); ok {
		t = s.X
	}
	if id, ok := t.(*ast.Ident); ok {
		return id.Name
	}
	return "?"
}

// callee name of a call expression: f(...) -> "f", x.f(...) -> "f"; package qualifier returned separately.
func asCallee(c *ast.CallExpr) (qual string, name string) {
	switch f := c.Fun.(type) {
	case *ast.Ident:
		return "", f.Name
	case *ast.SelectorExpr:
		if id, ok := f.X.(*ast.Ident); ok {
			return id.Name, f.Sel.Name
		}
		return "?", f.Sel.Name
	}
	return "", ""
}

// isMutexOp reports whether e is `<expr>.newAddrMtx.<op>()`.
func asIsMutexOp(e ast.Expr, op string) bool {
	c, ok := e.(*ast.CallExpr)
	if !ok {
		return false
	}
	s, ok := c.Fun.(*ast.SelectorExpr)
	if !ok || s.Sel.Name != op {
		return false
	}
	m, ok := s.X.(*ast.SelectorExpr)
	if !ok || m.Sel.Name != asMutexField {
		return false
	}
	base := "?"
	if id, ok := m.X.(*ast.Ident); ok {
		base = id.Name
	}
	asMutexBases[base] = true
	return true
}

// base identifiers of the `<base>.newAddrMtx` operations seen while classifying the current site
var asMutexBases = map[string]bool{}

// asOtherLock: `<x>.<field>.Lock()` on some other field — reported in the shape for diagnosis only.
func asOtherLock(e ast.Expr) string {
	c, ok := e.(*ast.CallExpr)
	if !ok {
		return ""
	}
	s, ok := c.Fun.(*ast.SelectorExpr)
	if !ok || (s.Sel.Name != "Lock" && s.Sel.Name != "RLock") {
		return ""
	}
	if m, ok := s.X.(*ast.SelectorExpr); ok && m.Sel.Name != asMutexField {
		return m.Sel.Name
	}
	return ""
}

// isTxCall: walletdb.Update(db, f) / walletdb.Batch(db, f) / x.Update(f, reset) / x.Batch(f); returns the closure arg.
func asIsTxCall(c *ast.CallExpr) (ast.Expr, bool) {
	s, ok := c.Fun.(*ast.SelectorExpr)
	if !ok {
		return nil, false
	}
	if s.Sel.Name != "Update" && s.Sel.Name != "Batch" {
		return nil, false
	}
	if id, ok := s.X.(*ast.Ident); ok && id.Name == "walletdb" {
		if len(c.Args) == 2 {
			return c.Args[1], true
		}
		return nil, true
	}
	// method form on a DB value: first argument is the closure
	if len(c.Args) >= 1 {
		if _, isLit := c.Args[0].(*ast.FuncLit); isLit {
			return c.Args[0], true
		}
	}
	return nil, false
}

func extractAddrSites(repo, out string) error {
	dir := filepath.Join(repo, "wallet")
	fset := token.NewFileSet()
	ents, err := os.ReadDir(dir)
	if err != nil {
		return err
	}
	funcs := map[string]*asFunc{}    // by key
	byName := map[string][]*asFunc{} // by bare name
	nfiles := 0
	for _, e := range ents {
		n := e.Name()
		if e.IsDir() || !strings.HasSuffix(n, ".go") || strings.HasSuffix(n, "_test.go") {
			continue
		}
		f, err := parser.ParseFile(fset, filepath.Join(dir, n), nil, parser.SkipObjectResolution)
		if err != nil {
			return fmt.Errorf("parse %s: %w", n, err)
		}
		if f.Name.Name != "wallet" {
			continue
		}
		nfiles++
		for _, d := range f.Decls {
			fd, ok := d.(*ast.FuncDecl)
			if !ok || fd.Body == nil {
				continue
			}
			key := fd.Name.Name
			if r := asRecvName(fd); r != "" {
				key = r + "." + key
			}
			af := &asFunc{key: key, name: fd.Name.Name, decl: fd, calls: map[string]bool{}}
			ast.Inspect(fd.Body, func(n ast.Node) bool {
				if c, ok := n.(*ast.CallExpr); ok {
					q, nm := asCallee(c)
					switch nm {
					case "NextExternalAddresses":
						af.ext = true
					case "NextInternalAddresses":
						af.int_ = true
					default:
						if nm != "" && q != "walletdb" {
							af.calls[nm] = true
						}
					}
				}
				// a function value passed around by name (e.g. `NewScript: newChangeScript`) is inside the
				// same body as a FuncLit, so Inspect already visited it.
				return true
			})
			funcs[key] = af
			byName[af.name] = append(byName[af.name], af)
		}
	}
	if nfiles == 0 {
		return fmt.Errorf("no package wallet sources under %s", dir)
	}
	// transitive closure of reaches over the by-name call graph
	for changed := true; changed; {
		changed = false
		for _, f := range funcs {
			for cn := range f.calls {
				for _, g := range byName[cn] {
					if g.ext && !f.ext {
						f.ext, changed = true, true
					}
					if g.int_ && !f.int_ {
						f.int_, changed = true, true
					}
				}
			}
		}
	}
	// reaches of an arbitrary subtree (closure argument)
	reach := func(n ast.Node) (ext, in bool) {
		ast.Inspect(n, func(m ast.Node) bool {
			if c, ok := m.(*ast.CallExpr); ok {
				_, nm := asCallee(c)
				switch nm {
				case "NextExternalAddresses":
					ext = true
				case "NextInternalAddresses":
					in = true
				default:
					for _, g := range byName[nm] {
						ext = ext || g.ext
						in = in || g.int_
					}
				}
			}
			return true
		})
		return
	}

	var sites []asSite
	isSite := map[string]bool{}
	keys := make([]string, 0, len(funcs))
	for k := range funcs {
		keys = append(keys, k)
	}
	sort.Strings(keys)
	for _, k := range keys {
		f := funcs[k]
		if !f.ext && !f.int_ {
			continue
		}
		ss := asAnalyse(f, reach, byName)
		for _, s := range ss {
			isSite[f.key] = true
			sites = append(sites, s)
		}
	}
	// exported helpers that reach Next*Addresses without opening the transaction themselves: callable from other
	// packages on a caller-provided bucket, outside any newAddrMtx.
	for _, k := range keys {
		f := funcs[k]
		if (f.ext || f.int_) && !isSite[f.key] && ast.IsExported(f.name) && asDirect(f, byName) {
			sites = append(sites, asSite{f.name, false, f.ext, f.int_, "unrecognised:exported-helper-without-transaction", ""})
		}
	}
	// the rest of the repository must not call Next*Addresses at all (outside waddrmgr itself and package wallet):
	// such a caller would bypass every site above.
	err = filepath.WalkDir(repo, func(path string, d os.DirEntry, err error) error {
		if err != nil {
			return nil
		}
		if d.IsDir() {
			rel, _ := filepath.Rel(repo, path)
			if rel == "wallet" || rel == "waddrmgr" || strings.HasPrefix(d.Name(), ".") || d.Name() == "vendor" || d.Name() == "testdata" {
				if rel == "wallet" {
					// sub-packages of wallet (txauthor, txrules, ...) are scanned; the package directory itself was analysed above
					return nil
				}
				return filepath.SkipDir
			}
			return nil
		}
		if !strings.HasSuffix(path, ".go") || strings.HasSuffix(path, "_test.go") || filepath.Dir(path) == dir {
			return nil
		}
		f, perr := parser.ParseFile(token.NewFileSet(), path, nil, parser.SkipObjectResolution)
		if perr != nil {
			return nil // not part of the build we analyse
		}
		for _, decl := range f.Decls {
			fd, ok := decl.(*ast.FuncDecl)
			if !ok || fd.Body == nil {
				continue
			}
			var ext, in bool
			ast.Inspect(fd.Body, func(n ast.Node) bool {
				if c, ok := n.(*ast.CallExpr); ok {
					switch _, nm := asCallee(c); nm {
					case "NextExternalAddresses":
						ext = true
					case "NextInternalAddresses":
						in = true
					}
				}
				return true
			})
			if ext || in {
				rel, _ := filepath.Rel(repo, path)
				sites = append(sites, asSite{rel + ":" + fd.Name.Name, false, ext, in, "unrecognised:caller-outside-package-wallet", ""})
			}
		}
		return nil
	})
	if err != nil {
		return err
	}
	sort.Slice(sites, func(i, j int) bool { return sites[i].name < sites[j].name })
	if len(sites) == 0 {
		return fmt.Errorf("no address-issuing site found in %s (source shape not understood)", dir)
	}

	var b strings.Builder
	b.WriteString("-- GENERATED by `vxextract addrsites` from " + dir + "/*.go — do not edit.\n")
	b.WriteString("import BtcwVerif.Model.AddrIssue\nnamespace AddrSitesGen\nopen AddrIssue\n\n")
	b.WriteString("def sites : List SiteInfo := [\n")
	for i, s := range sites {
		sep := ","
		if i == len(sites)-1 {
			sep = ""
		}
		fmt.Fprintf(&b, "  { name := %q, holdsMutex := %v, mutex := %q, ext := %v, int := %v, shape := %q }%s\n",
			s.name, s.holds, s.mutex, s.ext, s.int_, s.shape, sep)
	}
	b.WriteString("]\n\nend AddrSitesGen\n")
	if err := os.MkdirAll(filepath.Dir(out), 0o755); err != nil {
		return err
	}
	return os.WriteFile(out, []byte(b.String()), 0o644)
}

// asDirect: does f's own body (not via a site) reach the issuer only through non-site helpers — i.e. it expects the
// caller to provide the bucket.  Approximation: it has a parameter whose type mentions ReadWriteBucket/ReadWriteTx.
func asDirect(f *asFunc, _ map[string][]*asFunc) bool {
	for _, p := range f.decl.Type.Params.List {
		var sb strings.Builder
		ast.Inspect(p.Type, func(n ast.Node) bool {
			if id, ok := n.(*ast.Ident); ok {
				sb.WriteString(id.Name + " ")
			}
			return true
		})
		if strings.Contains(sb.String(), "ReadWriteBucket") || strings.Contains(sb.String(), "ReadWriteTx") {
			return true
		}
	}
	return false
}

// asAnalyse finds the transaction calls of f whose closure reaches the issuer and classifies the locking.
func asAnalyse(f *asFunc, reach func(ast.Node) (bool, bool), byName map[string][]*asFunc) []asSite {
	var res []asSite
	hasGoto := false
	ast.Inspect(f.decl.Body, func(n ast.Node) bool {
		switch s := n.(type) {
		case *ast.LabeledStmt:
			hasGoto = true
		case *ast.BranchStmt:
			if s.Tok == token.GOTO {
				hasGoto = true
			}
		}
		return true
	})

	// walk with an explicit ancestor stack
	var stack []ast.Node
	seen := 0
	ast.Inspect(f.decl.Body, func(n ast.Node) bool {
		if n == nil {
			stack = stack[:len(stack)-1]
			return false
		}
		stack = append(stack, n)
		c, ok := n.(*ast.CallExpr)
		if !ok {
			return true
		}
		arg, isTx := asIsTxCall(c)
		if !isTx {
			return true
		}
		var ext, in bool
		shapeErr := ""
		switch a := arg.(type) {
		case *ast.FuncLit:
			ext, in = reach(a)
		case *ast.Ident:
			gs := byName[a.Name]
			if len(gs) == 0 {
				// a local variable holding a closure: cannot see through it
				shapeErr = "unrecognised:closure-variable"
				ext, in = f.ext, f.int_
			}
			for _, g := range gs {
				ext = ext || g.ext
				in = in || g.int_
			}
		default:
			shapeErr = "unrecognised:closure-expression"
			ext, in = f.ext, f.int_
		}
		if !ext && !in {
			return true
		}
		seen++
		name := f.name
		if seen > 1 {
			name = fmt.Sprintf("%s#%d", f.name, seen)
		}
		s := asSite{name: name, ext: ext, int_: in}
		switch {
		case shapeErr != "":
			s.shape = shapeErr
		case hasGoto:
			s.shape = "unrecognised:goto-or-label"
		default:
			asMutexBases = map[string]bool{}
			s.holds, s.shape = asClassify(append([]ast.Node{}, stack...), c)
			recv := ""
			if f.decl.Recv != nil && len(f.decl.Recv.List) > 0 && len(f.decl.Recv.List[0].Names) > 0 {
				recv = f.decl.Recv.List[0].Names[0].Name
			}
			if s.holds {
				if len(asMutexBases) == 1 && recv != "" && asMutexBases[recv] {
					s.mutex = "recv." + asMutexField
				} else {
					s.holds, s.shape = false, "unrecognised:mutex-of-another-object"
				}
			}
		}
		res = append(res, s)
		return true
	})
	return res
}

// asClassify: path = ancestors from the function body down to the transaction call (inclusive).
func asClassify(path []ast.Node, call *ast.CallExpr) (bool, string) {
	// the call must not sit inside a nested function literal / go / defer statement of the site function
	for _, n := range path[:len(path)-1] {
		switch n.(type) {
		case *ast.FuncLit:
			return false, "unrecognised:transaction-inside-function-literal"
		case *ast.GoStmt:
			return false, "unrecognised:transaction-inside-go-statement"
		case *ast.DeferStmt:
			return false, "unrecognised:transaction-inside-defer"
		}
	}
	type ev struct {
		kind string // lock | unlock | deferunlock
	}
	var before []ev // mutex statements of enclosing blocks that precede the path statement
	explicitAfter := false
	explicitGap := false
	anyMutex := false
	for i, n := range path {
		var list []ast.Stmt
		switch b := n.(type) {
		case *ast.BlockStmt:
			list = b.List
		case *ast.CaseClause:
			list = b.Body
		case *ast.CommClause:
			list = b.Body
		default:
			continue
		}
		if i+1 >= len(path) {
			continue
		}
		// index of the statement on the path
		idx := -1
		for j, s := range list {
			if s == path[i+1] {
				idx = j
			}
		}
		if idx < 0 {
			continue
		}
		lastLock := -1
		for j := 0; j < idx; j++ {
			switch s := list[j].(type) {
			case *ast.ExprStmt:
				if asIsMutexOp(s.X, "Lock") {
					before = append(before, ev{"lock"})
					lastLock = j
					anyMutex = true
				} else if asIsMutexOp(s.X, "Unlock") {
					before = append(before, ev{"unlock"})
					anyMutex = true
				}
			case *ast.DeferStmt:
				if asIsMutexOp(s.Call, "Unlock") {
					before = append(before, ev{"deferunlock"})
					anyMutex = true
				}
			default:
				// a mutex operation hidden in a nested statement before the call: not understood
				found := false
				ast.Inspect(s, func(m ast.Node) bool {
					if e, ok := m.(ast.Expr); ok && (asIsMutexOp(e, "Lock") || asIsMutexOp(e, "Unlock")) {
						found = true
					}
					return true
				})
				if found {
					return false, "unrecognised:conditional-mutex-operation"
				}
			}
		}
		// explicit unlock after the path statement in the same block
		for j := idx + 1; j < len(list); j++ {
			if s, ok := list[j].(*ast.ExprStmt); ok && asIsMutexOp(s.X, "Unlock") {
				explicitAfter = true
				anyMutex = true
				// nothing between the lock and the unlock except the transaction statement
				if lastLock < 0 || lastLock != idx-1 || j != idx+1 {
					explicitGap = true
				}
				break
			}
		}
	}
	if !anyMutex {
		other := ""
		for i, n := range path {
			if b, ok := n.(*ast.BlockStmt); ok && i+1 < len(path) {
				for _, st := range b.List {
					if st == path[i+1] {
						break
					}
					if es, ok := st.(*ast.ExprStmt); ok {
						if o := asOtherLock(es.X); o != "" {
							other = o
						}
					}
				}
			}
		}
		if other != "" {
			return false, "none(other-lock:" + other + ")"
		}
		return false, "none"
	}
	// evaluate the sequence of mutex statements before the call
	held, deferred := false, false
	for _, e := range before {
		switch e.kind {
		case "lock":
			if held {
				return false, "unrecognised:double-lock"
			}
			held = true
		case "unlock":
			if !held {
				return false, "unrecognised:unlock-before-lock"
			}
			held = false
		case "deferunlock":
			if !held {
				return false, "unrecognised:defer-unlock-without-lock"
			}
			deferred = true
		}
	}
	switch {
	case held && deferred && !explicitAfter:
		return true, "defer"
	case held && !deferred && explicitAfter && !explicitGap:
		return true, "explicit"
	case held && !deferred && explicitAfter && explicitGap:
		return false, "unrecognised:statements-between-lock-and-unlock"
	case !held:
		return false, "none"
	default:
		return false, "unrecognised:lock-without-matching-unlock"
	}
}
