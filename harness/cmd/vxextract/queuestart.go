// Extractor "queuestart" (C18): chain/*.go -> lean/BtcwVerif/Gen/QueueStartGen.lean
//
// The theorems of Props/C18.lean are about ONE worker goroutine per ConcurrentQueue.  `(*ConcurrentQueue).Start`
// spawns a worker each time it is called, so "Start is called at most once per queue instance" is an obligation on
// the callers.  This extractor lists (go/ast, package chain, non-test files)
//
//   - every struct field of type *ConcurrentQueue (the queue owners) and where such a field is initialised,
//   - every call site `<x>.<queueField>.Start()` together with the once-guard that dominates it: the first
//     statement of the enclosing method being `if !atomic.CompareAndSwapInt32(&recv.g, 0, 1) { … return }` or
//     `if atomic.AddInt32(&recv.g, 1) != 1 { … return }`, the call itself being a plain top-level statement of the
//     method body (not in a loop, closure, go or defer statement),
//   - every OTHER write to such a guard variable anywhere in the package (atomic.Store/Swap/Add/CompareAndSwap,
//     assignment, ++/--, address taken), classified as `resets := false` only when it provably stores a non-zero
//     constant / is a 0->1 compare-and-swap,
//   - every use of a queue that is not one of the above (escapes, re-assignment of the field, creation outside a
//     constructor literal, mentions of the type outside chain/queue.go, mentions anywhere else in the repository).
//
// `C18_generated_queue_started_once` (decide) demands: at least one site, all sites guarded and straight-line, no
// resetting write to a guard that protects a site, no other uses.  Field bases that cannot be resolved to a struct
// type syntactically are attributed conservatively to every guard with that field name.
package main

import (
	"bytes"
	"fmt"
	"go/ast"
	"go/parser"
	"go/printer"
	"go/token"
	"os"
	"path/filepath"
	"sort"
	"strconv"
	"strings"
)

func init() { extractors["queuestart"] = extractQueueStart }

type qsGuard struct{ owner, field, form string }

type qsSite struct {
	file, fn, queue string
	line            int
	guard           int // index into guards, -1 = none
	straight        bool
}

type qsWrite struct {
	guard         int
	file, fn, src string
	line          int
	resets        bool
}

type qsFunc struct {
	file      string
	decl      *ast.FuncDecl
	recvName  string
	recvType  string
	params    map[string]string // identifier -> struct type name (pointer stripped), for parameters and the receiver
	guardCall *ast.CallExpr     // the atomic call inside the dominating test-and-set, if the method starts with one
	guardIdx  int
}

func qsTypeName(e ast.Expr) string {
	if s, ok := e.(*ast.StarExpr); ok {
		e = s.X
	}
	if id, ok := e.(*ast.Ident); ok {
		return id.Name
	}
	return ""
}

func qsStr(s string) string { return leanStr(strings.ReplaceAll(s, "\t", " ")) }

func extractQueueStart(repo, out string) error {
	dir := filepath.Join(repo, "chain")
	fset := token.NewFileSet()
	ents, err := os.ReadDir(dir)
	if err != nil {
		return err
	}
	type pf struct {
		name string
		f    *ast.File
	}
	var files []pf
	for _, e := range ents {
		n := e.Name()
		if e.IsDir() || !strings.HasSuffix(n, ".go") || strings.HasSuffix(n, "_test.go") {
			continue
		}
		f, err := parser.ParseFile(fset, filepath.Join(dir, n), nil, 0)
		if err != nil {
			return err
		}
		files = append(files, pf{n, f})
	}
	src := func(n ast.Node) string {
		var sb strings.Builder
		_ = printer.Fprint(&sb, fset, n)
		return strings.Join(strings.Fields(sb.String()), " ")
	}
	line := func(n ast.Node) int { return fset.Position(n.Pos()).Line }

	var (
		queueFields []string            // "Owner.field"
		qfNames     = map[string]bool{} // field names
		otherUses   []string
		guards      []qsGuard
		sites       []qsSite
		writes      []qsWrite
		funcs       []*qsFunc
	)
	isQueueType := func(e ast.Expr) bool { return qsTypeName(e) == "ConcurrentQueue" }

	// ---- A: queue-typed struct fields; every other mention of the type outside queue.go
	allowedTypeIdent := map[*ast.Ident]bool{}
	for _, p := range files {
		ast.Inspect(p.f, func(n ast.Node) bool {
			ts, ok := n.(*ast.TypeSpec)
			if !ok {
				return true
			}
			st, ok := ts.Type.(*ast.StructType)
			if !ok {
				return true
			}
			for _, fld := range st.Fields.List {
				if !isQueueType(fld.Type) {
					continue
				}
				if _, isPtr := fld.Type.(*ast.StarExpr); !isPtr || len(fld.Names) == 0 {
					otherUses = append(otherUses, fmt.Sprintf("%s:%d: queue held by value / embedded in %s", p.name, line(fld), ts.Name.Name))
					continue
				}
				for _, nm := range fld.Names {
					queueFields = append(queueFields, ts.Name.Name+"."+nm.Name)
					qfNames[nm.Name] = true
				}
				allowedTypeIdent[fld.Type.(*ast.StarExpr).X.(*ast.Ident)] = true
			}
			return true
		})
	}
	for _, p := range files {
		if p.name == "queue.go" {
			continue
		}
		ast.Inspect(p.f, func(n ast.Node) bool {
			if id, ok := n.(*ast.Ident); ok && id.Name == "ConcurrentQueue" && !allowedTypeIdent[id] {
				otherUses = append(otherUses, fmt.Sprintf("%s:%d: mention of type ConcurrentQueue outside a struct field", p.name, line(id)))
			}
			return true
		})
	}

	// ---- B: functions, their receivers/params and their leading test-and-set
	guardIndex := func(g qsGuard) int {
		for i, x := range guards {
			if x.owner == g.owner && x.field == g.field {
				return i
			}
		}
		guards = append(guards, g)
		return len(guards) - 1
	}
	// atomicTarget matches `atomic.<F>(&<id>.<field>, …)` and returns F, id, field.
	atomicTarget := func(c *ast.CallExpr) (fn, base, field string, ok bool) {
		sel, isSel := c.Fun.(*ast.SelectorExpr)
		if !isSel || !isIdent(sel.X, "atomic") || len(c.Args) == 0 {
			return
		}
		u, isU := c.Args[0].(*ast.UnaryExpr)
		if !isU || u.Op != token.AND {
			return
		}
		fs, isFS := u.X.(*ast.SelectorExpr)
		if !isFS {
			return
		}
		id, isID := fs.X.(*ast.Ident)
		if !isID {
			return
		}
		return sel.Sel.Name, id.Name, fs.Sel.Name, true
	}
	isLit := func(e ast.Expr, v string) bool {
		b, ok := e.(*ast.BasicLit)
		return ok && b.Value == v
	}
	for _, p := range files {
		for _, d := range p.f.Decls {
			fd, ok := d.(*ast.FuncDecl)
			if !ok || fd.Body == nil {
				continue
			}
			fn := &qsFunc{file: p.name, decl: fd, params: map[string]string{}, guardIdx: -1}
			if fd.Recv != nil && len(fd.Recv.List) == 1 {
				fn.recvType = qsTypeName(fd.Recv.List[0].Type)
				if len(fd.Recv.List[0].Names) == 1 {
					fn.recvName = fd.Recv.List[0].Names[0].Name
					fn.params[fn.recvName] = fn.recvType
				}
			}
			if fd.Type.Params != nil {
				for _, prm := range fd.Type.Params.List {
					if t := qsTypeName(prm.Type); t != "" {
						for _, nm := range prm.Names {
							fn.params[nm.Name] = t
						}
					}
				}
			}
			// leading `if <test-and-set on &recv.g> { …; return … }`
			if len(fd.Body.List) > 0 && fn.recvName != "" {
				if is, ok := fd.Body.List[0].(*ast.IfStmt); ok && is.Init == nil && is.Else == nil && len(is.Body.List) > 0 {
					if _, endsInReturn := is.Body.List[len(is.Body.List)-1].(*ast.ReturnStmt); endsInReturn {
						var call *ast.CallExpr
						form := ""
						switch c := is.Cond.(type) {
						case *ast.UnaryExpr: // !atomic.CompareAndSwapInt32(&c.g, 0, 1)
							if ce, ok := c.X.(*ast.CallExpr); ok && c.Op == token.NOT {
								if f, _, _, ok := atomicTarget(ce); ok && strings.HasPrefix(f, "CompareAndSwap") && len(ce.Args) == 3 &&
									isLit(ce.Args[1], "0") && isLit(ce.Args[2], "1") {
									call, form = ce, "cas01"
								}
							}
						case *ast.BinaryExpr: // atomic.AddInt32(&c.g, 1) != 1
							if ce, ok := c.X.(*ast.CallExpr); ok && c.Op == token.NEQ && isLit(c.Y, "1") {
								if f, _, _, ok := atomicTarget(ce); ok && strings.HasPrefix(f, "Add") && len(ce.Args) == 2 && isLit(ce.Args[1], "1") {
									call, form = ce, "add1"
								}
							}
						}
						if call != nil {
							if _, base, field, _ := atomicTarget(call); base == fn.recvName {
								fn.guardCall = call
								fn.guardIdx = guardIndex(qsGuard{fn.recvType, field, form})
							}
						}
					}
				}
			}
			funcs = append(funcs, fn)
		}
	}
	fname := func(fn *qsFunc) string {
		if fn.recvType != "" {
			return "(*" + fn.recvType + ")." + fn.decl.Name.Name
		}
		return fn.decl.Name.Name
	}

	// ---- C: uses of queue fields (call sites of Start, escapes), creations
	okMethods := map[string]bool{"Start": true, "Stop": true, "ChanIn": true, "ChanOut": true}
	handledCreation := map[*ast.CallExpr]bool{}
	for _, p := range files {
		// creations inside a constructor literal `<queueField>: NewConcurrentQueue(…)`
		ast.Inspect(p.f, func(n ast.Node) bool {
			kv, ok := n.(*ast.KeyValueExpr)
			if !ok {
				return true
			}
			k, ok := kv.Key.(*ast.Ident)
			if !ok || !qfNames[k.Name] {
				return true
			}
			if ce, ok := kv.Value.(*ast.CallExpr); ok && isIdent(ce.Fun, "NewConcurrentQueue") {
				handledCreation[ce] = true
			} else {
				otherUses = append(otherUses, fmt.Sprintf("%s:%d: queue field initialised with %s", p.name, line(kv), src(kv.Value)))
			}
			return true
		})
		if p.name != "queue.go" {
			ast.Inspect(p.f, func(n ast.Node) bool {
				if ce, ok := n.(*ast.CallExpr); ok && isIdent(ce.Fun, "NewConcurrentQueue") && !handledCreation[ce] {
					otherUses = append(otherUses, fmt.Sprintf("%s:%d: queue created outside a constructor literal", p.name, line(ce)))
				}
				return true
			})
		}
	}
	for _, fn := range funcs {
		var stack []ast.Node
		ast.Inspect(fn.decl.Body, func(n ast.Node) bool {
			if n == nil {
				stack = stack[:len(stack)-1]
				return true
			}
			stack = append(stack, n)
			se, ok := n.(*ast.SelectorExpr)
			if !ok || !qfNames[se.Sel.Name] {
				return true
			}
			// stack: … grand, parent, se
			var parent, grand, great ast.Node
			if len(stack) >= 2 {
				parent = stack[len(stack)-2]
			}
			if len(stack) >= 3 {
				grand = stack[len(stack)-3]
			}
			if len(stack) >= 4 {
				great = stack[len(stack)-4]
			}
			msel, isM := parent.(*ast.SelectorExpr)
			call, isC := grand.(*ast.CallExpr)
			if !(isM && msel.X == se && isC && call.Fun == msel && okMethods[msel.Sel.Name]) {
				otherUses = append(otherUses, fmt.Sprintf("%s:%d: %s: queue used other than through Start/Stop/ChanIn/ChanOut: %s",
					fn.file, line(se), fname(fn), src(parent)))
				return true
			}
			if msel.Sel.Name != "Start" {
				return true
			}
			// straight: the call is an expression statement directly in the method body
			straight := false
			if es, ok := great.(*ast.ExprStmt); ok && es.X == call {
				for i, st := range fn.decl.Body.List {
					if st == es && i > 0 {
						straight = true
					}
				}
			}
			g := -1
			if fn.guardIdx >= 0 {
				// the queue must belong to the receiver whose guard was tested
				if id, ok := se.X.(*ast.Ident); ok && id.Name == fn.recvName {
					g = fn.guardIdx
				}
			}
			sites = append(sites, qsSite{fn.file, fname(fn), src(se), line(se), g, straight})
			return true
		})
	}

	// ---- D: other writes to guard variables
	for _, fn := range funcs {
		var stack []ast.Node
		ast.Inspect(fn.decl.Body, func(n ast.Node) bool {
			if n == nil {
				stack = stack[:len(stack)-1]
				return true
			}
			stack = append(stack, n)
			se, ok := n.(*ast.SelectorExpr)
			if !ok {
				return true
			}
			var cand []int
			for i, g := range guards {
				if g.field != se.Sel.Name {
					continue
				}
				owner := "?"
				if id, ok := se.X.(*ast.Ident); ok {
					if t, ok := fn.params[id.Name]; ok {
						owner = t
					}
				}
				if owner == "?" || owner == g.owner {
					cand = append(cand, i)
				}
			}
			if len(cand) == 0 {
				return true
			}
			var parent, grand ast.Node
			if len(stack) >= 2 {
				parent = stack[len(stack)-2]
			}
			if len(stack) >= 3 {
				grand = stack[len(stack)-3]
			}
			isWrite, resets, what := false, true, ""
			switch pn := parent.(type) {
			case *ast.UnaryExpr:
				if pn.Op != token.AND {
					break
				}
				ce, inCall := grand.(*ast.CallExpr)
				f, _, _, isAtomic := "", "", "", false
				if inCall {
					f, _, _, isAtomic = atomicTarget(ce)
				}
				switch {
				case !inCall || !isAtomic || len(ce.Args) == 0 || ce.Args[0] != pn:
					isWrite, what = true, "address taken: "+src(grand)
				case strings.HasPrefix(f, "Load"):
				case ce == fn.guardCall:
					// the dominating test-and-set itself
				default:
					isWrite, what = true, src(ce)
					if strings.HasPrefix(f, "CompareAndSwap") && len(ce.Args) == 3 && isLit(ce.Args[1], "0") && isLit(ce.Args[2], "1") {
						resets = false
					}
					if strings.HasPrefix(f, "Store") && len(ce.Args) == 2 && isLit(ce.Args[1], "1") {
						resets = false
					}
				}
			case *ast.AssignStmt:
				for i, l := range pn.Lhs {
					if l == se {
						isWrite, what = true, src(pn)
						if pn.Tok == token.ASSIGN && len(pn.Rhs) == len(pn.Lhs) && (isLit(pn.Rhs[i], "1") || isIdent(pn.Rhs[i], "true")) {
							resets = false
						}
					}
				}
			case *ast.IncDecStmt:
				isWrite, what = true, src(pn)
			}
			if isWrite {
				for _, g := range cand {
					writes = append(writes, qsWrite{g, fn.file, fname(fn), what, line(se), resets})
				}
			}
			return true
		})
	}

	// ---- E: the exported type must not be used anywhere else in the repository
	_ = filepath.Walk(repo, func(path string, info os.FileInfo, err error) error {
		if err != nil {
			return nil
		}
		if info.IsDir() {
			if info.Name() == ".git" || path == dir {
				return filepath.SkipDir
			}
			return nil
		}
		if !strings.HasSuffix(path, ".go") || strings.HasSuffix(path, "_test.go") {
			return nil
		}
		b, err := os.ReadFile(path)
		if err == nil && bytes.Contains(b, []byte("ConcurrentQueue")) {
			rel, _ := filepath.Rel(repo, path)
			otherUses = append(otherUses, rel+": mentions ConcurrentQueue outside package chain")
		}
		return nil
	})
	sort.Strings(otherUses)

	var sb strings.Builder
	sb.WriteString("/- GENERATED by `vxextract queuestart` from chain/*.go — do not edit. -/\n")
	sb.WriteString("import BtcwVerif.Model.QueueStart\nnamespace QueueStartGen\nopen QueueStart\n\n")
	q := func(l []string) string {
		var x []string
		for _, s := range l {
			x = append(x, qsStr(s))
		}
		return "[" + strings.Join(x, ",\n     ") + "]"
	}
	var gs, ss, ws []string
	for _, g := range guards {
		gs = append(gs, fmt.Sprintf("⟨%s, %s, %s⟩", qsStr(g.owner), qsStr(g.field), qsStr(g.form)))
	}
	for _, s := range sites {
		g := "none"
		if s.guard >= 0 {
			g = "some " + strconv.Itoa(s.guard)
		}
		ss = append(ss, fmt.Sprintf("⟨%s, %s, %s, %d, %s, %s⟩", qsStr(s.file), qsStr(s.fn), qsStr(s.queue), s.line, g, leanBool(s.straight)))
	}
	for _, w := range writes {
		ws = append(ws, fmt.Sprintf("⟨%d, %s, %s, %s, %d, %s⟩", w.guard, qsStr(w.file), qsStr(w.fn), qsStr(w.src), w.line, leanBool(w.resets)))
	}
	fmt.Fprintf(&sb, "def facts : Facts :=\n  { queueFields := %s\n    guards := [%s]\n    sites := [%s]\n    writes := [%s]\n    otherUses := %s }\n",
		q(queueFields), strings.Join(gs, ",\n     "), strings.Join(ss, ",\n     "), strings.Join(ws, ",\n     "), q(otherUses))
	sb.WriteString("\nend QueueStartGen\n")
	if err := os.MkdirAll(filepath.Dir(out), 0o755); err != nil {
		return err
	}
	return os.WriteFile(out, []byte(sb.String()), 0o644)
}
