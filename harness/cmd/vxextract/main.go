// vxextract: regenerates Lean model parts from /repo's current source (go/ast based).
package main

import (
	"flag"
	"fmt"
	"os"
)

type extractor func(repo, out string) error

var extractors = map[string]extractor{}

func main() {
	if len(os.Args) < 2 {
		fmt.Fprintln(os.Stderr, "usage: vxextract <name> -repo DIR -out FILE")
		os.Exit(2)
	}
	name := os.Args[1]
	fs := flag.NewFlagSet(name, flag.ExitOnError)
	repo := fs.String("repo", "/repo", "repository root")
	out := fs.String("out", "", "output .lean file")
	_ = fs.Parse(os.Args[2:])
	ex, ok := extractors[name]
	if !ok {
		fmt.Fprintf(os.Stderr, "unknown extractor %q\n", name)
		os.Exit(2)
	}
	if err := ex(*repo, *out); err != nil {
		fmt.Fprintln(os.Stderr, "extract:", err)
		os.Exit(1)
	}
	fmt.Println("ok")
}
