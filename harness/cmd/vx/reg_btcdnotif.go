package main

import _ "verifharness/engines/btcdnotif"
