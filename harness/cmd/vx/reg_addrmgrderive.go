package main

import _ "verifharness/engines/addrmgrderive"
