package main

import _ "verifharness/engines/kahn"
