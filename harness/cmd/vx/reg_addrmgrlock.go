package main

import _ "verifharness/engines/addrmgrlock"
