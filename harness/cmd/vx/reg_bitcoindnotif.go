package main

import _ "verifharness/engines/bitcoindnotif"
