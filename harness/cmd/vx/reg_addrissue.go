package main

import _ "verifharness/engines/addrissue"
