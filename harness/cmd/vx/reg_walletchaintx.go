package main

import _ "verifharness/engines/walletchaintx"
