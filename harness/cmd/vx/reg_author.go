package main

import _ "verifharness/engines/author"
