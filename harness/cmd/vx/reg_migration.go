package main

import _ "verifharness/engines/migration"
