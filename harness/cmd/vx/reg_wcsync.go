package main

import _ "verifharness/engines/wcsync"
