package main

import _ "verifharness/engines/txstore"
