package main

import _ "verifharness/engines/crypto"
