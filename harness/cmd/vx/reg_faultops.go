package main

import _ "verifharness/engines/faultops"
