package main

import _ "verifharness/engines/queue"
