package main

import _ "verifharness/engines/walletrestart"
