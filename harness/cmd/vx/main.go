// vx: correspondence harness CLI.
//
//	vx run    -engine E -seed N -tier quick|thorough -out DIR   generate + execute on the real code
//	vx replay -engine E -ops FILE -out DIR                       execute given ops on the real code
//	vx list
package main

import (
	"flag"
	"fmt"
	"math/rand"
	"os"

	"verifharness/core"
)

func main() {
	if len(os.Args) < 2 {
		fmt.Fprintln(os.Stderr, "usage: vx run|replay|list ...")
		os.Exit(2)
	}
	cmd := os.Args[1]
	fs := flag.NewFlagSet(cmd, flag.ExitOnError)
	eng := fs.String("engine", "", "engine name")
	seed := fs.Int64("seed", 1, "PRNG seed")
	tier := fs.String("tier", "quick", "quick|thorough")
	out := fs.String("out", "", "output dir")
	ops := fs.String("ops", "", "ops file (replay)")
	_ = fs.Parse(os.Args[2:])

	switch cmd {
	case "list":
		for _, n := range core.Names() {
			fmt.Println(n)
		}
		return
	case "run", "replay":
		e := core.Get(*eng)
		if e == nil {
			fmt.Fprintf(os.Stderr, "unknown engine %q\n", *eng)
			os.Exit(2)
		}
		var cases []core.Case
		if cmd == "run" {
			cases = e.Generate(rand.New(rand.NewSource(*seed)), *tier)
		} else {
			var err error
			cases, err = core.ReadCases(*ops)
			if err != nil {
				fmt.Fprintln(os.Stderr, err)
				os.Exit(2)
			}
		}
		st, err := core.RunCases(e, cases, *out)
		if err != nil {
			fmt.Fprintln(os.Stderr, err)
			os.Exit(2)
		}
		fmt.Printf("engine=%s cases=%d ops=%d oracle_violations=%d\n", st.Engine, st.Cases, st.Ops, len(st.Violations))
	default:
		fmt.Fprintln(os.Stderr, "unknown command")
		os.Exit(2)
	}
}
