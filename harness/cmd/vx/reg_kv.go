package main

import _ "verifharness/engines/kv"
